// C13 correspondence harness: nfl::fastrandombytes (repository C++ + the repository's Salsa20 assembly) against
// the Lean Salsa20/20 specification, the Lean state-machine model, and an independent portable C Salsa20/20.
//
// Two builds:
//   black box  (default)       : links lib/prng/fastrandombytes.cpp + nfl_crypto_stream_salsa20_amd64_xmm6.s;
//                                nfl::randombytes is provided HERE (fixed key), lib/prng/randombytes.cpp is not compiled.
//   white box  (-DFRB_WHITEBOX): the repository's fastrandombytes.cpp is #included textually so that its three statics
//                                (init, key, nonce) can be read after every request and `nonce` can be preset to a
//                                reachable value (2^32-2, 2^64-2, …) before the first request (state injection).
//                                The white-box build runs the product {request number classes} x {length classes = routes through
//                                the assembly}: a fault of the assembly that needs BOTH a large request number (high nonce bytes
//                                non-zero) AND a long request (the 4-blocks-at-a-time loop) is reached there, as a request of
//                                fastrandombytes, not only as a direct call of the routine (run_asm_structured, black-box build).
//
// The generator state is process-global, hence every request history runs in its own forked child.  The destination
// buffer lives in an arena that starts right after and ends right at a PROT_NONE page; the rest of the arena is a red
// zone that is verified after every call.  If a child dies, the parent emits the request that was being served as an
// `…fault` line (a concrete failing input for the driver).
//
// Lines (all integers decimal):
//   frb <wb> <start> <idx> <len> <align> <side> <key:32> <npairs> (<count> <len>)* =>
//        <seedcalls> <redzone_ok> <c_agrees> [wb: <nonce_after:8> <init> <key:32>] <mode> <data…>
//   salsa20asm <len> <align> <side> <key:32> <nonce:8> => <redzone_ok> <c_agrees> <mode> <data…>
//   salsa20block <in:64> => <out:64>            portable C core
//   salsa20iter <count> <in:64> => <out:64>     portable C core iterated
//   salsa20qr a b c d => z0 z1 z2 z3            portable C quarterround (spec form)
//   vector <id> => <ok>                         portable C against the examples of the Salsa20 specification
//   jobend <job> => <status>                    0 = child exited normally
//   frbfault / salsa20asmfault <same lhs> => <signal | 1000+exit code>
//   <data> encoding: mode 0 = all bytes; mode 1 (len > 1024) = digest of every 256-byte chunk, first 64, last 64 bytes
//
// Big requests (len > 2^21: 2^24+small in every run; 2^31±small, 2^32-1, 2^32+small, 2^33+small in the part
// VERIF_SALSA_PART=huge of the thorough tier) are NOT re-generated in Lean.  The whole buffer is compared with the
// portable C Salsa20 here (multi-threaded, random access by block counter) and sampled windows go to the driver, which
// computes them from `Spec.Salsa20.block key nonce (offset/64 + i)` directly:
//   frbbig <frb lhs> => <seedcalls> <redzone_ok> <mismatching bytes> <first mismatching offset | -1> [wb: statics]
//   frbwin <off> <wlen> <kind> <frb lhs> => <bytes [off, off+wlen) of the buffer>
//   salsa20asmbig <len> <align> <side> <key:32> <nonce:8> => <redzone_ok> <mismatching bytes> <first | -1>
//   salsa20asmwin <off> <wlen> <kind> <len> <align> <side> <key:32> <nonce:8> => <bytes>
//   kind: 0 head, 1 tail, 2/3/4/5 around multiples of 2^32/2^31/2^24/2^16, 6/7 last 256-/64-byte boundary,
//         8 around len mod 2^k (k = 32, 31, 24, 16: where a length truncated to k bits would stop), 9 one per 64 MiB, 10 random
// The buffer is pre-filled with non-zero bytes (the routine zero-fills the buffer and then XORs the keystream into it: a
// zero-fill that stops early is visible only on non-zero memory).
#include "common.hpp"
#include <signal.h>
#include <sys/mman.h>
#include <sys/wait.h>
#include <time.h>
#include <unistd.h>
#include <string>
#include <thread>
#include <utility>
#include <vector>

#include "nfl/prng/crypto_stream_salsa20.h"
#include "nfl/prng/randombytes.h"

// ---------------------------------------------------------------------------- the environment: the key source
static unsigned char g_key[32];
static int g_seedcalls = 0;
namespace nfl {
// k-th call (k = 0,1,…) delivers key bytes (g_key[i] + k) mod 256: a second seeding would be visible in the output
void randombytes(unsigned char* x, unsigned long long xlen) {
  for (unsigned long long i = 0; i < xlen; i++) x[i] = (unsigned char)(g_key[i % 32] + g_seedcalls);
  g_seedcalls++;
}
}  // namespace nfl

#ifdef FRB_WHITEBOX
#include "fastrandombytes.cpp"  // the repository's file (found through -I<repo>/lib/prng)
#define WB 1
#else
#include "nfl/prng/fastrandombytes.h"
#define WB 0
#endif

using namespace vh;
typedef unsigned char u8;
typedef uint32_t u32;

// ---------------------------------------------------------------------------- independent portable Salsa20/20
#define ROTL(v, c) (((v) << (c)) | ((v) >> (32 - (c))))
static inline u32 ld32(const u8* p) { return (u32)p[0] | ((u32)p[1] << 8) | ((u32)p[2] << 16) | ((u32)p[3] << 24); }
static inline void st32(u8* p, u32 v) { p[0] = v; p[1] = v >> 8; p[2] = v >> 16; p[3] = v >> 24; }

// flat form of salsa20-ref: 10 × (column round; row round) on x[16], then feed-forward
static void ref_core(u8 out[64], const u8 in[64]) {
  u32 x[16], j[16];
  for (int i = 0; i < 16; i++) x[i] = j[i] = ld32(in + 4 * i);
  for (int r = 0; r < 20; r += 2) {
    x[4] ^= ROTL(x[0] + x[12], 7);   x[8] ^= ROTL(x[4] + x[0], 9);
    x[12] ^= ROTL(x[8] + x[4], 13);  x[0] ^= ROTL(x[12] + x[8], 18);
    x[9] ^= ROTL(x[5] + x[1], 7);    x[13] ^= ROTL(x[9] + x[5], 9);
    x[1] ^= ROTL(x[13] + x[9], 13);  x[5] ^= ROTL(x[1] + x[13], 18);
    x[14] ^= ROTL(x[10] + x[6], 7);  x[2] ^= ROTL(x[14] + x[10], 9);
    x[6] ^= ROTL(x[2] + x[14], 13);  x[10] ^= ROTL(x[6] + x[2], 18);
    x[3] ^= ROTL(x[15] + x[11], 7);  x[7] ^= ROTL(x[3] + x[15], 9);
    x[11] ^= ROTL(x[7] + x[3], 13);  x[15] ^= ROTL(x[11] + x[7], 18);
    x[1] ^= ROTL(x[0] + x[3], 7);    x[2] ^= ROTL(x[1] + x[0], 9);
    x[3] ^= ROTL(x[2] + x[1], 13);   x[0] ^= ROTL(x[3] + x[2], 18);
    x[6] ^= ROTL(x[5] + x[4], 7);    x[7] ^= ROTL(x[6] + x[5], 9);
    x[4] ^= ROTL(x[7] + x[6], 13);   x[5] ^= ROTL(x[4] + x[7], 18);
    x[11] ^= ROTL(x[10] + x[9], 7);  x[8] ^= ROTL(x[11] + x[10], 9);
    x[9] ^= ROTL(x[8] + x[11], 13);  x[10] ^= ROTL(x[9] + x[8], 18);
    x[12] ^= ROTL(x[15] + x[14], 7); x[13] ^= ROTL(x[12] + x[15], 9);
    x[14] ^= ROTL(x[13] + x[12], 13); x[15] ^= ROTL(x[14] + x[13], 18);
  }
  for (int i = 0; i < 16; i++) st32(out + 4 * i, x[i] + j[i]);
}

static const u8 SIGMA[17] = "expand 32-byte k";
static const u8 TAU[17] = "expand 16-byte k";

static void ref_expand32(u8 in[64], const u8 key[32], const u8 n16[16]) {
  memcpy(in, SIGMA, 4); memcpy(in + 4, key, 16); memcpy(in + 20, SIGMA + 4, 4); memcpy(in + 24, n16, 16);
  memcpy(in + 40, SIGMA + 8, 4); memcpy(in + 44, key + 16, 16); memcpy(in + 60, SIGMA + 12, 4);
}

static void ref_stream(u8* out, size_t len, const u8 nonce[8], const u8 key[32]) {
  u8 n16[16], in[64], blk[64];
  memcpy(n16, nonce, 8);
  for (uint64_t ctr = 0; len > 0; ctr++) {
    for (int i = 0; i < 8; i++) n16[8 + i] = (u8)(ctr >> (8 * i));
    ref_expand32(in, key, n16);
    ref_core(blk, in);
    size_t m = len < 64 ? len : 64;
    memcpy(out, blk, m);
    out += m; len -= m;
  }
}

static void ref_qr(u32 y[4], u32 z[4]) {
  z[1] = y[1] ^ ROTL(y[0] + y[3], 7);
  z[2] = y[2] ^ ROTL(z[1] + y[0], 9);
  z[3] = y[3] ^ ROTL(z[2] + z[1], 13);
  z[0] = y[0] ^ ROTL(z[3] + z[2], 18);
}

// The same flat double-round on four consecutive blocks at once (GCC vector extension, lane l = block j0+l), used only
// to compare buffers of several GiB (verify_big): 6 x faster than ref_core at -O1.  It is tied to ref_core by a self-test
// (`vector` lines, incl. counters around 2^32) and, through the sampled windows, to the Lean specification.
#pragma GCC push_options
#pragma GCC optimize("O3")
typedef u32 v4u __attribute__((vector_size(16)));
#define VROTL(v, c) (((v) << (c)) | ((v) >> (32 - (c))))
// in[16] = the input words of the block (words 8, 9 = the 64-bit block counter, overwritten per lane)
__attribute__((no_sanitize("undefined"))) static void ref_core4(u32 out[4][16], const u32 in[16], uint64_t j0) {
  v4u x[16], j[16];
  for (int i = 0; i < 16; i++) j[i] = (v4u){in[i], in[i], in[i], in[i]};
  for (int l = 0; l < 4; l++) { uint64_t c = j0 + l; j[8][l] = (u32)c; j[9][l] = (u32)(c >> 32); }
  for (int i = 0; i < 16; i++) x[i] = j[i];
  for (int r = 0; r < 20; r += 2) {
    x[4] ^= VROTL(x[0] + x[12], 7);   x[8] ^= VROTL(x[4] + x[0], 9);
    x[12] ^= VROTL(x[8] + x[4], 13);  x[0] ^= VROTL(x[12] + x[8], 18);
    x[9] ^= VROTL(x[5] + x[1], 7);    x[13] ^= VROTL(x[9] + x[5], 9);
    x[1] ^= VROTL(x[13] + x[9], 13);  x[5] ^= VROTL(x[1] + x[13], 18);
    x[14] ^= VROTL(x[10] + x[6], 7);  x[2] ^= VROTL(x[14] + x[10], 9);
    x[6] ^= VROTL(x[2] + x[14], 13);  x[10] ^= VROTL(x[6] + x[2], 18);
    x[3] ^= VROTL(x[15] + x[11], 7);  x[7] ^= VROTL(x[3] + x[15], 9);
    x[11] ^= VROTL(x[7] + x[3], 13);  x[15] ^= VROTL(x[11] + x[7], 18);
    x[1] ^= VROTL(x[0] + x[3], 7);    x[2] ^= VROTL(x[1] + x[0], 9);
    x[3] ^= VROTL(x[2] + x[1], 13);   x[0] ^= VROTL(x[3] + x[2], 18);
    x[6] ^= VROTL(x[5] + x[4], 7);    x[7] ^= VROTL(x[6] + x[5], 9);
    x[4] ^= VROTL(x[7] + x[6], 13);   x[5] ^= VROTL(x[4] + x[7], 18);
    x[11] ^= VROTL(x[10] + x[9], 7);  x[8] ^= VROTL(x[11] + x[10], 9);
    x[9] ^= VROTL(x[8] + x[11], 13);  x[10] ^= VROTL(x[9] + x[8], 18);
    x[12] ^= VROTL(x[15] + x[14], 7); x[13] ^= VROTL(x[12] + x[15], 9);
    x[14] ^= VROTL(x[13] + x[12], 13); x[15] ^= VROTL(x[14] + x[13], 18);
  }
  for (int i = 0; i < 16; i++) { v4u t = x[i] + j[i]; for (int l = 0; l < 4; l++) out[l][i] = t[l]; }
}
#pragma GCC pop_options
// blocks j0 … j0+3 of the stream (key, nonce) as 256 bytes
static void ref_blocks4(u8 out[256], const u8 key[32], const u8 nonce[8], uint64_t j0) {
  u8 n16[16] = {0}, in[64];
  memcpy(n16, nonce, 8);
  ref_expand32(in, key, n16);
  u32 w[16], o[4][16];
  for (int i = 0; i < 16; i++) w[i] = ld32(in + 4 * i);
  ref_core4(o, w, j0);
  for (int l = 0; l < 4; l++) for (int i = 0; i < 16; i++) st32(out + 64 * l + 4 * i, o[l][i]);
}
// self-test: ref_blocks4 == four calls of ref_core, random keys/nonces, counters incl. 2^32-2 … 2^32+1 and ≥ 2^40
static bool ref_blocks4_selftest(Rng& g) {
  for (int t = 0; t < 200; t++) {
    u8 key[32], nonce[8], n16[16], in[64], a[256], b[256];
    for (auto& x : key) x = (u8)g.next();
    for (auto& x : nonce) x = (u8)g.next();
    uint64_t j0 = t < 8 ? 0xfffffffcULL + t : t < 16 ? (g.next() >> g.below(40)) : g.below(1ULL << 28);
    ref_blocks4(a, key, nonce, j0);
    memcpy(n16, nonce, 8);
    for (int l = 0; l < 4; l++) {
      for (int i = 0; i < 8; i++) n16[8 + i] = (u8)((j0 + l) >> (8 * i));
      ref_expand32(in, key, n16);
      ref_core(b + 64 * l, in);
    }
    if (memcmp(a, b, 256)) return false;
  }
  return true;
}

// ---------------------------------------------------------------------------- output encoding
// two polynomial hashes modulo the primes 2^31-1 and 2^31-19 (any single-byte difference changes both), packed in one integer
static const uint64_t DP1 = 2147483647ULL, DR1 = 1234567891ULL, DP2 = 2147483629ULL, DR2 = 987654323ULL;
static uint64_t digest(const u8* p, size_t n) {
  uint64_t h1 = 0, h2 = 0;
  for (size_t i = 0; i < n; i++) {
    h1 = (h1 * DR1 + p[i] + 1) % DP1;
    h2 = (h2 * DR2 + p[i] + 1) % DP2;
  }
  return h1 * 2147483648ULL + h2;
}
static const size_t CAP = 1024;
static void put_data(FILE* f, const u8* p, size_t len) {
  if (len <= CAP) {
    fprintf(f, " 0");
    for (size_t i = 0; i < len; i++) fprintf(f, " %u", p[i]);
  } else {
    fprintf(f, " 1");
    for (size_t o = 0; o < len; o += 256) fprintf(f, " %llu", (unsigned long long)digest(p + o, len - o < 256 ? len - o : 256));
    for (size_t i = 0; i < 64; i++) fprintf(f, " %u", p[i]);
    for (size_t i = len - 64; i < len; i++) fprintf(f, " %u", p[i]);
  }
}

// ---------------------------------------------------------------------------- guarded arena
static const size_t PAGE = 4096;
struct Arena {
  u8* data = nullptr;
  size_t size = 0;
  void init(size_t bytes) {
    size = (bytes + PAGE - 1) / PAGE * PAGE;
    u8* base = (u8*)mmap(nullptr, size + 2 * PAGE, PROT_NONE, MAP_PRIVATE | MAP_ANONYMOUS | MAP_NORESERVE, -1, 0);
    if (base == MAP_FAILED) { perror("mmap"); exit(3); }
    data = base + PAGE;
    if (mprotect(data, size, PROT_READ | PROT_WRITE)) { perror("mprotect"); exit(3); }
  }
  static u8 pat(size_t pos) { return (u8)(pos * 167 + 13 + (pos >> 8) * 29); }
  // side 0: buffer flush to the trailing guard page; 1: flush to the leading guard page; 2: interior at offset 4096+align
  u8* place(size_t len, int side, size_t align) const {
    if (side == 0) return data + size - len;
    if (side == 1) return data;
    return data + PAGE + align;
  }
  // only the neighbourhood that is re-verified is re-filled: [lo, hi) around the buffer (whole arena for big requests)
  void window(const u8* buf, size_t len, size_t& lo, size_t& hi) const {
    size_t off = buf - data;
    lo = off > 2 * PAGE ? off - 2 * PAGE : 0;
    hi = off + len + 2 * PAGE < size ? off + len + 2 * PAGE : size;
  }
  void fill(const u8* buf, size_t len) {
    size_t lo, hi; window(buf, len, lo, hi);
    for (size_t i = lo; i < hi; i++) data[i] = pat(i);
  }
  // big requests: the red zones get the position-dependent pattern, the buffer itself a constant non-zero byte (memset speed)
  void fill_big(u8* buf, size_t len) {
    size_t lo, hi; window(buf, len, lo, hi);
    size_t off = buf - data;
    for (size_t i = lo; i < off; i++) data[i] = pat(i);
    memset(buf, 0xA5, len);
    for (size_t i = off + len; i < hi; i++) data[i] = pat(i);
  }
  bool redzone_ok(const u8* buf, size_t len) const {
    size_t lo, hi; window(buf, len, lo, hi);
    size_t off = buf - data;
    for (size_t i = lo; i < off; i++) if (data[i] != pat(i)) return false;
    for (size_t i = off + len; i < hi; i++) if (data[i] != pat(i)) return false;
    return true;
  }
};
static Arena g_arena;
static Arena g_big;                          // for requests > BIG_FROM bytes (pages are touched in the forked children only)
static const size_t BIG_FROM = (size_t)1 << 21;
static uint64_t g_winseed = 1;
static unsigned g_threads = 1;

// ---------------------------------------------------------------------------- big requests: whole-buffer verdict + windows
struct BigVerdict { uint64_t mism; long long first; };
static double now_s() { struct timespec ts; clock_gettime(CLOCK_MONOTONIC, &ts); return ts.tv_sec + 1e-9 * ts.tv_nsec; }
// portable C over the whole buffer, block ranges split over threads (block j depends on (key, nonce, j) only)
static BigVerdict verify_big(const u8* buf, size_t len, const u8 nonce[8], const u8 key[32]) {
  uint64_t nblk = (len + 63) / 64;
  unsigned T = nblk < 8192 ? 1 : g_threads;
  std::vector<BigVerdict> part(T, BigVerdict{0, -1});
  auto work = [&](unsigned t) {
    uint64_t lo = nblk / T * t + (t < nblk % T ? t : nblk % T), hi = lo + nblk / T + (t < nblk % T ? 1 : 0);
    u8 n16[16], in[64], blk[256];
    memcpy(n16, nonce, 8);
    BigVerdict v{0, -1};
    auto cmp = [&](const u8* exp, uint64_t o, size_t m) {
      if (memcmp(exp, buf + o, m))
        for (size_t i = 0; i < m; i++)
          if (exp[i] != buf[o + i]) { if (v.first < 0) v.first = (long long)(o + i); v.mism++; }
    };
    uint64_t j = lo;
    for (; j + 4 <= hi && (j + 4) * 64 <= len; j += 4) {   // four full blocks at once
      ref_blocks4(blk, key, nonce, j);
      cmp(blk, j * 64, 256);
    }
    for (; j < hi; j++) {                                   // the rest (and the partial last block) with ref_core
      for (int i = 0; i < 8; i++) n16[8 + i] = (u8)(j >> (8 * i));
      ref_expand32(in, key, n16);
      ref_core(blk, in);
      uint64_t o = j * 64;
      cmp(blk, o, len - o < 64 ? (size_t)(len - o) : 64);
    }
    part[t] = v;
  };
  if (T == 1) work(0);
  else {
    std::vector<std::thread> th;
    for (unsigned t = 0; t < T; t++) th.emplace_back(work, t);
    for (auto& x : th) x.join();
  }
  BigVerdict r{0, -1};
  for (auto& v : part) { r.mism += v.mism; if (r.first < 0) r.first = v.first; }
  return r;
}

struct Win { uint64_t off; unsigned wlen; int kind; };
static std::vector<Win> windows_of(uint64_t len, Rng& g) {
  std::vector<Win> w;
  typedef long long ll;
  auto add = [&](ll lo, ll hi, int kind) {   // [lo, hi) clipped to the buffer, in pieces of at most 128 bytes
    if (lo < 0) lo = 0;
    if (hi > (ll)len) hi = (ll)len;
    for (ll o = lo; o < hi; o += 128) w.push_back({(uint64_t)o, (unsigned)(hi - o < 128 ? hi - o : 128), kind});
  };
  auto straddle = [&](uint64_t b, int kind) { if (b <= len) add((ll)b - 64, (ll)b + 64, kind); };
  add(0, 384, 0);
  add((ll)len - 256, (ll)len, 1);
  for (uint64_t m = 1; (m << 32) <= len; m++) straddle(m << 32, 2);
  for (uint64_t m = 1; (m << 31) <= len; m++) straddle(m << 31, 3);
  for (uint64_t m = 1; (m << 24) <= len; m++) straddle(m << 24, 4);
  uint64_t n16 = len >> 16;
  for (uint64_t m = 1; m <= 4 && m <= n16; m++) straddle(m << 16, 5);
  for (uint64_t m = n16 > 4 ? n16 - 3 : 1; m <= n16; m++) straddle(m << 16, 5);
  for (int i = 0; i < 32 && n16; i++) straddle((1 + g.below(n16)) << 16, 5);
  straddle(len - len % 256, 6);
  straddle(len - len % 64, 7);
  static const int K[] = {32, 31, 24, 16};
  for (int k : K) { uint64_t t = len & (((uint64_t)1 << k) - 1); if (t < len) add((ll)t - 64, (ll)t + 64, 8); }
  for (uint64_t o = 0; o + ((uint64_t)1 << 26) <= len; o += (uint64_t)1 << 26) {
    uint64_t r = g.below(((uint64_t)1 << 26) - 128);
    add((ll)(o + r), (ll)(o + r + 128), 9);
  }
  for (int i = 0; i < 64 && len > 128; i++) { uint64_t o = g.below(len - 128); add((ll)o, (ll)o + 128, 10); }
  return w;
}
static void put_windows(const char* op, const std::string& lhs_rest, const u8* buf, uint64_t len, uint64_t salt) {
  Rng gw(g_winseed * 1000003 + salt * 7919 + len);
  for (const Win& x : windows_of(len, gw)) {
    printf("%s %llu %u %d %s =>", op, (unsigned long long)x.off, x.wlen, x.kind, lhs_rest.c_str());
    for (unsigned i = 0; i < x.wlen; i++) printf(" %u", buf[x.off + i]);
    printf("\n");
  }
}

// ---------------------------------------------------------------------------- child/parent plumbing
static char* g_pending;                    // shared page: lhs of the line being produced (for fault reports)
static const size_t PENDING_SZ = 1 << 16;

static void set_pending(const std::string& s) {
  size_t n = s.size() < PENDING_SZ - 1 ? s.size() : PENDING_SZ - 1;
  memcpy(g_pending, s.data(), n);
  g_pending[n] = 0;
}

// `body` runs in a forked child (own generator state); random choices inside must come from an Rng seeded by the parent
template <class F> static void run_job(int job, F body) {
  fflush(stdout);
  g_pending[0] = 0;
  pid_t pid = fork();
  if (pid < 0) { perror("fork"); exit(3); }
  if (pid == 0) {
    body();
    fflush(stdout);
    _exit(0);
  }
  int st = 0;
  waitpid(pid, &st, 0);
  long code = WIFEXITED(st) ? (WEXITSTATUS(st) ? 1000 + WEXITSTATUS(st) : 0) : (WIFSIGNALED(st) ? WTERMSIG(st) : 999);
  if (code != 0 && g_pending[0]) {
    // "<op> rest" -> "<op>fault rest => code"
    std::string p(g_pending);
    size_t sp = p.find(' ');
    printf("%sfault%s => %ld\n", p.substr(0, sp).c_str(), sp == std::string::npos ? "" : p.substr(sp).c_str(), code);
    fprintf(stderr, "job %d: child terminated abnormally (%ld) while serving: %.300s\n", job, code, g_pending);
  }
  printf("jobend %d => %ld\n", job, code);
  fflush(stdout);
}

// ---------------------------------------------------------------------------- one request history
struct Req { size_t len; int side; size_t align; bool emit; };

static std::string key_str(const u8* k, size_t n) {
  std::string s;
  for (size_t i = 0; i < n; i++) s += " " + std::to_string((unsigned)k[i]);
  return s;
}

static void run_history(const u8 key[32], uint64_t start, const std::vector<Req>& reqs) {
  memcpy(g_key, key, 32);
  g_seedcalls = 0;
#ifdef FRB_WHITEBOX
  for (int i = 0; i < 8; i++) nfl::nonce[i] = (u8)(start >> (8 * i));
#else
  start = 0;
#endif
  std::vector<std::pair<uint64_t, uint64_t>> prev;  // run-length encoded lengths of the requests served so far
  uint64_t idx = 0;
  std::vector<u8> ref;
  u8 dummy[8];
  for (const Req& q : reqs) {
    if (!q.emit) {
      nfl::fastrandombytes(dummy, q.len <= sizeof dummy ? q.len : sizeof dummy);
    } else if (q.len > BIG_FROM) {
      u8* buf = g_big.place(q.len, q.side, q.align);
      std::string rest = std::to_string(WB) + " " + std::to_string(start) + " " + std::to_string(idx) + " " +
                         std::to_string(q.len) + " " + std::to_string((size_t)((uintptr_t)buf & 63)) + " " +
                         std::to_string(q.side) + key_str(key, 32) + " " + std::to_string(prev.size());
      for (auto& pr : prev) rest += " " + std::to_string(pr.first) + " " + std::to_string(pr.second);
      set_pending("frbbig " + rest);
      double t0 = now_s();
      g_big.fill_big(buf, q.len);
      double t1 = now_s();
      nfl::fastrandombytes(buf, q.len);
      double t2 = now_s();
      bool rz = g_big.redzone_ok(buf, q.len);
      u8 nn[8];
      uint64_t nv = start + idx;
      for (int i = 0; i < 8; i++) nn[i] = (u8)(nv >> (8 * i));
      BigVerdict v = verify_big(buf, q.len, nn, key);
      if (getenv("VERIF_SALSA_TIMING")) fprintf(stderr, "len %zu: fill %.2f s, fastrandombytes %.2f s, verify %.2f s\n", q.len, t1 - t0, t2 - t1, now_s() - t2);
      printf("frbbig %s => %d %d %llu %lld", rest.c_str(), g_seedcalls, rz ? 1 : 0, (unsigned long long)v.mism, v.first);
#ifdef FRB_WHITEBOX
      for (int i = 0; i < 8; i++) printf(" %u", nfl::nonce[i]);
      printf(" %d", nfl::init);
      for (int i = 0; i < 32; i++) printf(" %u", nfl::key[i]);
#endif
      printf("\n");
      put_windows("frbwin", rest, buf, q.len, nv);
      fflush(stdout);
    } else {
      u8* buf = g_arena.place(q.len, q.side, q.align);
      std::string lhs = "frb " + std::to_string(WB) + " " + std::to_string(start) + " " + std::to_string(idx) + " " +
                        std::to_string(q.len) + " " + std::to_string((size_t)((uintptr_t)buf & 63)) + " " +
                        std::to_string(q.side) + key_str(key, 32) + " " + std::to_string(prev.size());
      for (auto& pr : prev) lhs += " " + std::to_string(pr.first) + " " + std::to_string(pr.second);
      set_pending(lhs);
      g_arena.fill(buf, q.len);
      nfl::fastrandombytes(buf, q.len);
      bool rz = g_arena.redzone_ok(buf, q.len);
      // third opinion: portable C with the nonce this request must have used
      u8 nn[8];
      uint64_t nv = start + idx;
      for (int i = 0; i < 8; i++) nn[i] = (u8)(nv >> (8 * i));
      ref.resize(q.len);
      ref_stream(ref.data(), q.len, nn, key);
      bool cag = q.len == 0 || memcmp(ref.data(), buf, q.len) == 0;
      printf("%s => %d %d %d", lhs.c_str(), g_seedcalls, rz ? 1 : 0, cag ? 1 : 0);
#ifdef FRB_WHITEBOX
      for (int i = 0; i < 8; i++) printf(" %u", nfl::nonce[i]);
      printf(" %d", nfl::init);
      for (int i = 0; i < 32; i++) printf(" %u", nfl::key[i]);
#endif
      put_data(stdout, buf, q.len);
      printf("\n");
      fflush(stdout);
    }
    size_t eff = q.emit ? q.len : (q.len <= sizeof dummy ? q.len : sizeof dummy);
    if (!prev.empty() && prev.back().second == eff) prev.back().first++;
    else prev.push_back({1, eff});
    idx++;
  }
  g_pending[0] = 0;
}

// ---------------------------------------------------------------------------- direct calls of the assembly
static void asm_call(const u8 key[32], const u8 nonce[8], size_t len, int side, size_t align);
static void run_asm_direct(Rng& g, size_t count) {
  static const size_t L[] = {0, 1, 2, 31, 32, 63, 64, 65, 127, 128, 129, 191, 192, 193, 255, 256, 257, 319, 320, 321, 383, 384, 385,
                             447, 448, 449, 511, 512, 513, 575, 576, 577, 1023, 1024, 1025, 4095, 4096, 4097};
  for (size_t t = 0; t < count; t++) {
    u8 key[32], nonce[8];
    for (auto& b : key) b = (u8)g.next();
    for (auto& b : nonce) b = (u8)g.next();
    if (t % 7 == 1) memset(nonce, 0xff, 8);
    if (t % 7 == 2) memset(key, 0xff, 32);
    if (t % 7 == 3) { memset(key, 0, 32); memset(nonce, 0, 8); }
    const size_t NL = sizeof L / sizeof *L;   // every listed length with each of the three placements, then random
    size_t len = t < 3 * NL ? L[t / 3] : (g.below(4) ? g.below(700) : g.below(6000));
    int side = t < 3 * NL ? (int)(t % 3) : (int)g.below(3);
    size_t align = g.below(64);
    asm_call(key, nonce, len, side, align);
  }
  g_pending[0] = 0;
}

// One direct call of the assembly, emitted as a `salsa20asm` line.
static void asm_call(const u8 key[32], const u8 nonce[8], size_t len, int side, size_t align) {
  static std::vector<u8> ref;
  u8* buf = g_arena.place(len, side, align);
  std::string lhs = "salsa20asm " + std::to_string(len) + " " + std::to_string((size_t)((uintptr_t)buf & 63)) + " " +
                    std::to_string(side) + key_str(key, 32) + key_str(nonce, 8);
  set_pending(lhs);
  g_arena.fill(buf, len);
  nfl_crypto_stream_salsa20_amd64_xmm6(buf, len, nonce, key);
  bool rz = g_arena.redzone_ok(buf, len);
  ref.resize(len);
  ref_stream(ref.data(), len, nonce, key);
  bool cag = len == 0 || memcmp(ref.data(), buf, len) == 0;
  printf("%s => %d %d", lhs.c_str(), rz ? 1 : 0, cag ? 1 : 0);
  put_data(stdout, buf, len);
  printf("\n");
  fflush(stdout);
}

// One direct call of the assembly with a big length: `salsa20asmbig` verdict line + `salsa20asmwin` windows.
static void asm_call_big(const u8 key[32], const u8 nonce[8], size_t len, int side, size_t align) {
  u8* buf = g_big.place(len, side, align);
  std::string rest = std::to_string(len) + " " + std::to_string((size_t)((uintptr_t)buf & 63)) + " " +
                     std::to_string(side) + key_str(key, 32) + key_str(nonce, 8);
  set_pending("salsa20asmbig " + rest);
  g_big.fill_big(buf, len);
  nfl_crypto_stream_salsa20_amd64_xmm6(buf, len, nonce, key);
  bool rz = g_big.redzone_ok(buf, len);
  BigVerdict v = verify_big(buf, len, nonce, key);
  printf("salsa20asmbig %s => %d %llu %lld\n", rest.c_str(), rz ? 1 : 0, (unsigned long long)v.mism, v.first);
  put_windows("salsa20asmwin", rest, buf, len, ld32(nonce));
  fflush(stdout);
  g_pending[0] = 0;
}

// Length classes = one representative (or more) per route through the assembly.  The routine has a 4-blocks-at-a-time loop
// (`._bytesatleast256`/`._mainloop1`, taken floor(len/256) times), a one-block loop (`._bytesbetween1and255`/`._mainloop2`,
// taken for the remaining floor((len mod 256)/64) full blocks) and a partial last block that goes through a stack copy
// (len mod 64 != 0).  Each of the three is taken 0, 1 or >= 2 times (tail: 0 or 1) somewhere in this list.
static const size_t PATHLEN[] = {0, 1, 63, 64, 65, 128, 191, 192, 255, 256, 257, 320, 383, 511, 512, 513, 703, 768, 1000, 4096 + 17};
static const size_t NPATHLEN = sizeof PATHLEN / sizeof *PATHLEN;

// 64-bit values whose little-endian encoding exercises every byte / word boundary of the nonce
static std::vector<uint64_t> nonce_classes(Rng& g) {
  std::vector<uint64_t> v = {0, 1, 0xffULL, 0x100ULL, 0x101ULL, 0xffffULL, 0x10000ULL, 0x10001ULL, 0xffffffULL, 0x1000000ULL, 0x1000001ULL,
                             0xfffffffeULL, 0xffffffffULL, 0x100000000ULL, 0x100000001ULL, 0x100000002ULL,
                             1ULL << 40, 1ULL << 48, 1ULL << 56, 1ULL << 63, 0xfffffffffffffffeULL, 0xffffffffffffffffULL};
  for (int k = 0; k < 2; k++) {   // random with all eight bytes non-zero and pairwise distinct
    uint64_t x = 0;
    u8 seen[256] = {0};
    for (int i = 0; i < 8; i++) {
      u8 b;
      do b = (u8)(1 + g.below(255)); while (seen[b]);
      seen[b] = 1;
      x |= (uint64_t)b << (8 * i);
    }
    v.push_back(x);
  }
  return v;
}

// Every byte of the nonce and every byte of the key must matter on every route: for every length class
//   * nonce = 0 except one byte (8 positions), random key            -> a byte that is dropped / replaced by a zero lane shows
//   * nonce = all bytes equal except one (8 positions), random key   -> a byte that is replaced by another nonce byte shows
//   * the nonce classes (LE64 of 0, 2^8-1…, 2^16±, …, 2^32-2…2^32+2, 2^40, …, 2^64-1, all-bytes-distinct random)
//   * key = 0 except one byte (32 positions; rotating over the length classes so that every word meets every route)
static void run_asm_structured(Rng& g) {
  u8 key[32], nonce[8];
  size_t t = 0;
  std::vector<uint64_t> nc = nonce_classes(g);
  for (size_t li = 0; li < NPATHLEN; li++) {
    size_t len = PATHLEN[li];
    if (len == 0) continue;
    for (auto& b : key) b = (u8)g.next();
    for (int i = 0; i < 8; i++) {
      memset(nonce, 0, 8);
      nonce[i] = (u8)(1 + g.below(255));
      asm_call(key, nonce, len, (int)(t++ % 3), g.below(64));
      u8 bg = (u8)(1 + g.below(255)), v;
      do v = (u8)g.next(); while (v == bg);
      memset(nonce, bg, 8);
      nonce[i] = v;
      asm_call(key, nonce, len, (int)(t++ % 3), g.below(64));
    }
    for (uint64_t x : nc) {
      for (int i = 0; i < 8; i++) nonce[i] = (u8)(x >> (8 * i));
      asm_call(key, nonce, len, (int)(t++ % 3), g.below(64));
    }
    for (int i = 0; i < 8; i++) nonce[i] = (u8)(1 + g.below(255));
    for (int w = 0; w < 8; w++) {   // one byte of every key word; the byte within the word rotates with the length class
      memset(key, 0, 32);
      key[4 * w + (li + w) % 4] = (u8)(1 + g.below(255));
      asm_call(key, nonce, len, (int)(t++ % 3), g.below(64));
    }
  }
  // all 32 key byte positions on the three loops at once (4-block x2, one-block x2, partial tail)
  for (int i = 0; i < 32; i++) {
    memset(key, 0, 32);
    key[i] = (u8)(1 + g.below(255));
    for (int j = 0; j < 8; j++) nonce[j] = (u8)(1 + g.below(255));
    asm_call(key, nonce, 703, (int)(t++ % 3), g.below(64));
  }
  g_pending[0] = 0;
}

// ---------------------------------------------------------------------------- portable C against the specification's examples
static void emit_block(const u8 in[64]) {
  u8 out[64];
  ref_core(out, in);
  printf("salsa20block%s =>%s\n", key_str(in, 64).c_str(), key_str(out, 64).c_str());
}
static void emit_iter(uint64_t count, const u8 in[64], u8 out[64]) {
  u8 cur[64];
  memcpy(cur, in, 64);
  for (uint64_t i = 0; i < count; i++) { ref_core(out, cur); memcpy(cur, out, 64); }
  memcpy(out, cur, 64);
  printf("salsa20iter %llu%s =>%s\n", (unsigned long long)count, key_str(in, 64).c_str(), key_str(out, 64).c_str());
}
static void emit_qr(const u32 yy[4]) {
  u32 y[4] = {yy[0], yy[1], yy[2], yy[3]}, z[4];
  ref_qr(y, z);
  printf("salsa20qr %u %u %u %u => %u %u %u %u\n", y[0], y[1], y[2], y[3], z[0], z[1], z[2], z[3]);
}

static void spec_vectors(Rng& g) {
  int id = 0;
  auto vec = [&](bool ok) { printf("vector %d => %d\n", id++, ok ? 1 : 0); };
  // §3 quarterround
  static const u32 Q[7][8] = {
      {0, 0, 0, 0, 0, 0, 0, 0},
      {1, 0, 0, 0, 0x08008145, 0x00000080, 0x00010200, 0x20500000},
      {0, 1, 0, 0, 0x88000100, 0x00000001, 0x00000200, 0x00402000},
      {0, 0, 1, 0, 0x80040000, 0x00000000, 0x00000001, 0x00002000},
      {0, 0, 0, 1, 0x00048044, 0x00000080, 0x00010000, 0x20100001},
      {0xe7e8c006, 0xc4f9417d, 0x6479b4b2, 0x68c67137, 0xe876d72b, 0x9361dfd5, 0xf1460244, 0x948541a3},
      {0xd3917c5b, 0x55f1c407, 0x52a58a7a, 0x8f887a3b, 0x3e2f308c, 0xd90a8f36, 0x6ab2a923, 0x2883524c}};
  for (auto& q : Q) {
    u32 y[4] = {q[0], q[1], q[2], q[3]}, z[4];
    ref_qr(y, z);
    vec(!memcmp(z, q + 4, 16));
    emit_qr(q);
  }
  // §8 hash
  static const u8 H1[64] = {211, 159, 13, 115, 76, 55, 82, 183, 3, 117, 222, 37, 191, 187, 234, 136, 49, 237, 179, 48, 1, 106, 178, 219,
                            175, 199, 166, 48, 86, 16, 179, 207, 31, 240, 32, 63, 15, 83, 93, 161, 116, 147, 48, 113, 238, 55, 204, 36,
                            79, 201, 235, 79, 3, 81, 156, 47, 203, 26, 244, 243, 88, 118, 104, 54};
  static const u8 H1o[64] = {109, 42, 178, 168, 156, 240, 248, 238, 168, 196, 190, 203, 26, 110, 170, 154, 29, 29, 150, 26, 150, 30, 235, 249,
                             190, 163, 251, 48, 69, 144, 51, 57, 118, 40, 152, 157, 180, 57, 27, 94, 107, 42, 236, 35, 27, 111, 114, 114,
                             219, 236, 232, 135, 111, 155, 110, 18, 24, 232, 95, 158, 179, 19, 48, 202};
  static const u8 H2[64] = {88, 118, 104, 54, 79, 201, 235, 79, 3, 81, 156, 47, 203, 26, 244, 243, 191, 187, 234, 136, 211, 159, 13, 115,
                            76, 55, 82, 183, 3, 117, 222, 37, 86, 16, 179, 207, 49, 237, 179, 48, 1, 106, 178, 219, 175, 199, 166, 48,
                            238, 55, 204, 36, 31, 240, 32, 63, 15, 83, 93, 161, 116, 147, 48, 113};
  static const u8 H2o[64] = {179, 19, 48, 202, 219, 236, 232, 135, 111, 155, 110, 18, 24, 232, 95, 158, 26, 110, 170, 154, 109, 42, 178, 168,
                             156, 240, 248, 238, 168, 196, 190, 203, 69, 144, 51, 57, 29, 29, 150, 26, 150, 30, 235, 249, 190, 163, 251, 48,
                             27, 111, 114, 114, 118, 40, 152, 157, 180, 57, 27, 94, 107, 42, 236, 35};
  static const u8 H3[64] = {6, 124, 83, 146, 38, 191, 9, 50, 4, 161, 47, 222, 122, 182, 223, 185, 75, 27, 0, 216, 16, 122, 7, 89,
                            162, 104, 101, 147, 213, 21, 54, 95, 225, 253, 139, 176, 105, 132, 23, 116, 76, 41, 176, 207, 221, 34, 157, 108,
                            94, 94, 99, 52, 90, 117, 91, 220, 146, 190, 239, 143, 196, 176, 130, 186};
  static const u8 H3o[64] = {8, 18, 38, 199, 119, 76, 215, 67, 173, 127, 144, 162, 103, 212, 176, 217, 192, 19, 233, 33, 159, 197, 154, 160,
                             128, 243, 219, 65, 171, 136, 135, 225, 123, 11, 68, 86, 237, 82, 20, 155, 133, 189, 9, 83, 167, 116, 194, 78,
                             122, 127, 195, 185, 185, 204, 188, 90, 245, 9, 183, 248, 226, 85, 245, 104};
  u8 out[64], z64[64] = {0};
  ref_core(out, z64); vec(!memcmp(out, z64, 64)); emit_block(z64);
  ref_core(out, H1); vec(!memcmp(out, H1o, 64)); emit_block(H1);
  ref_core(out, H2); vec(!memcmp(out, H2o, 64)); emit_block(H2);
  // Salsa20^1000000 of §8: always checked in C; the Lean side re-does 1000 (quick) / 1000000 (thorough) iterations
  emit_iter(thorough() ? 1000000 : 1000, H3, out);
  if (!thorough()) { u8 cur[64]; memcpy(cur, H3, 64); for (int i = 0; i < 1000000; i++) { ref_core(out, cur); memcpy(cur, out, 64); } }
  vec(!memcmp(out, H3o, 64));
  // §9 key expansion
  u8 k[32], n[16], in[64];
  for (int i = 0; i < 16; i++) { k[i] = 1 + i; k[16 + i] = 201 + i; n[i] = 101 + i; }
  static const u8 E32[64] = {69, 37, 68, 39, 41, 15, 107, 193, 255, 139, 122, 6, 170, 233, 217, 98, 89, 144, 182, 106, 21, 51, 200, 65,
                             239, 49, 222, 34, 215, 114, 40, 126, 104, 197, 7, 225, 197, 153, 31, 2, 102, 78, 76, 176, 84, 245, 246, 184,
                             177, 160, 133, 130, 6, 72, 149, 119, 192, 195, 132, 236, 234, 103, 246, 74};
  static const u8 E16[64] = {39, 173, 46, 248, 30, 200, 82, 17, 48, 67, 254, 239, 37, 18, 13, 247, 241, 200, 61, 144, 10, 55, 50, 185,
                             6, 47, 246, 253, 143, 86, 187, 225, 134, 85, 110, 246, 161, 163, 43, 235, 231, 94, 171, 51, 145, 214, 112, 29,
                             14, 232, 5, 16, 151, 140, 183, 141, 171, 9, 122, 181, 104, 182, 177, 193};
  ref_expand32(in, k, n); ref_core(out, in); vec(!memcmp(out, E32, 64)); emit_block(in);
  memcpy(in, TAU, 4); memcpy(in + 4, k, 16); memcpy(in + 20, TAU + 4, 4); memcpy(in + 24, n, 16);
  memcpy(in + 40, TAU + 8, 4); memcpy(in + 44, k, 16); memcpy(in + 60, TAU + 12, 4);
  ref_core(out, in); vec(!memcmp(out, E16, 64)); emit_block(in);
  // ECRYPT Salsa20/20 256-bit set 1 vector 0: first 64 stream bytes
  static const u8 EC[64] = {0xE3, 0xBE, 0x8F, 0xDD, 0x8B, 0xEC, 0xA2, 0xE3, 0xEA, 0x8E, 0xF9, 0x47, 0x5B, 0x29, 0xA6, 0xE7,
                            0x00, 0x39, 0x51, 0xE1, 0x09, 0x7A, 0x5C, 0x38, 0xD2, 0x3B, 0x7A, 0x5F, 0xAD, 0x9F, 0x68, 0x44,
                            0xB2, 0x2C, 0x97, 0x55, 0x9E, 0x27, 0x23, 0xC7, 0xCB, 0xBD, 0x3F, 0xE4, 0xFC, 0x8D, 0x9A, 0x07,
                            0x44, 0x65, 0x2A, 0x83, 0xE7, 0x2A, 0x9C, 0x46, 0x18, 0x76, 0xAF, 0x4D, 0x7E, 0xF1, 0xA1, 0x17};
  u8 ek[32] = {0x80}, en[8] = {0};
  ref_stream(out, 64, en, ek); vec(!memcmp(out, EC, 64));
  nfl_crypto_stream_salsa20_amd64_xmm6(out, 64, en, ek); vec(!memcmp(out, EC, 64));
  // the 4-lane form of the portable core used on multi-GiB buffers == ref_core
  vec(ref_blocks4_selftest(g));
  // random and structured inputs of the core and the quarterround
  size_t nb = thorough() ? 2000 : 150;
  for (size_t t = 0; t < nb; t++) {
    u8 x[64];
    for (auto& b : x) b = (u8)g.next();
    if (t == 0) memset(x, 0xff, 64);
    if (t >= 1 && t <= 64) { memset(x, 0, 64); x[t - 1] = (u8)(1u << (t % 8)); }
    emit_block(x);
  }
  for (size_t t = 0; t < nb; t++) {
    u32 y[4] = {(u32)g.next(), (u32)g.next(), (u32)g.next(), (u32)g.next()};
    if (t < 16) for (int i = 0; i < 4; i++) y[i] = ((t >> i) & 1) ? 0xffffffffu : (t == 0 ? 0x80000000u : 0x7fffffffu);
    emit_qr(y);
  }
}

// ---------------------------------------------------------------------------- request plans
static size_t rnd_len(Rng& g) {
  static const size_t A[] = {0, 1, 63}, B[] = {0, 1, 255, 63, 64, 65, 191, 192, 193};
  switch (g.below(8)) {
    case 0: return g.below(4);
    case 1: return 64 * g.below(12) + A[g.below(3)];
    case 2: return 256 * (1 + g.below(6)) + B[g.below(9)];
    case 3: return g.below(64);
    case 4: return 1024 + g.below(5000);
    default: return g.below(700);
  }
}

int main() {
  uint64_t seed = env_u64("VERIF_SEED", 1);
  Rng g(seed * 77 + 13 + WB);
  const bool th = thorough();
  g_arena.init((1u << 20) + 16 * PAGE);
  g_pending = (char*)mmap(nullptr, PENDING_SZ, PROT_READ | PROT_WRITE, MAP_SHARED | MAP_ANONYMOUS, -1, 0);
  if (g_pending == MAP_FAILED) { perror("mmap"); return 3; }
  int job = 0;
  auto rnd_key = [&](u8 k[32]) { for (int i = 0; i < 32; i++) k[i] = (u8)g.next(); };
  // big requests.  VERIF_SALSA_PART=huge (thorough tier, run once per build): ONLY the requests of 2^27 … 2^33+100 bytes;
  // otherwise: the ordinary plan, which includes the 2^24+small / 2^26+small requests (arena of 64 MiB).
  const char* part = getenv("VERIF_SALSA_PART");
  // VERIF_SALSA_PART=huge1 (quick tier, black-box build only): two requests of 2^32 + small bytes, one through
  // fastrandombytes and one straight into the assembly, low parts on either side of the dispatcher's 256-byte threshold
  const bool huge1 = part && !strcmp(part, "huge1");
  const bool huge = huge1 || (part && !strcmp(part, "huge"));
  g_winseed = seed;
  g_threads = std::thread::hardware_concurrency();
  if (g_threads < 1) g_threads = 1;
  if (g_threads > 16) g_threads = 16;
  const uint64_t P24 = 1ULL << 24, P26 = 1ULL << 26, P31 = 1ULL << 31, P32 = 1ULL << 32, P33 = 1ULL << 33;
  static const uint64_t SMALL[] = {0, 1, 63, 64, 100, 255, 256, 257, 4500};   // low bits of a length whose high part is non-zero
  bool do33 = false;
  if (huge) {
    uint64_t avail = (uint64_t)sysconf(_SC_AVPHYS_PAGES) * (uint64_t)sysconf(_SC_PAGESIZE);
    if (avail < (6ULL << 30)) {
      fprintf(stderr, "huge part: %llu MiB of free memory, 6 GiB needed\n", (unsigned long long)(avail >> 20));
      if (huge1) { printf("hugeskip 1 => 1\n"); return 0; }   // quick tier: recorded as skipped, not as a failure
      return 3;
    }
    do33 = !huge1 && avail >= (12ULL << 30);
    g_big.init((do33 ? P33 : P32) + (1u << 16));
  } else {
    g_big.init(P26 + (1u << 16));
  }
  // a history of big requests: sides rotate (flush to the trailing guard page / to the leading one / interior at a random alignment),
  // small requests in between keep the request counter and the route through the assembly varied
  auto big_history = [&](uint64_t start, std::vector<uint64_t> lens, bool small_between) {
    u8 k[32];
    rnd_key(k);
    uint64_t js = g.next();
    run_job(job++, [&] {
      Rng gj(js);
      std::vector<Req> r;
      size_t t = gj.below(3);
      for (uint64_t l : lens) {
        r.push_back({(size_t)l, (int)(t++ % 3), gj.below(64), true});
        if (small_between) r.push_back({rnd_len(gj) % 400, (int)gj.below(3), gj.below(64), true});
      }
      run_history(k, start, r);
    });
  };
  auto big_asm = [&](uint64_t len, int nonce_kind) {
    u8 k[32], n[8];
    rnd_key(k);
    for (int i = 0; i < 8; i++) n[i] = nonce_kind == 0 ? (u8)g.next() : nonce_kind == 1 ? (u8)(1 + g.below(255)) : (u8)(i < 4 ? 0 : 1 + g.below(255));
    int side = (int)g.below(3);
    size_t al = g.below(64);
    run_job(job++, [&] { asm_call_big(k, n, (size_t)len, side, al); });
  };
  if (huge1) {
    const bool lowfirst = g.below(2) == 0;
    const uint64_t lo = SMALL[g.below(6)], hi = SMALL[6 + g.below(3)];   // < 256 and >= 256
    big_history(0, {P32 + (lowfirst ? lo : hi)}, true);
    big_asm(P32 + (lowfirst ? hi : lo), (int)g.below(3));
    return 0;
  }
  if (huge) {
#ifndef FRB_WHITEBOX
    big_history(0, {(1ULL << 27) + 100, (1ULL << 28) + 255, (1ULL << 30) + 64}, true);
    big_history(0, {P31 - 1, P31, P31 + 100, P31 + 256}, true);
    big_history(0, {P32 - 1, P32 + SMALL[0], P32 + SMALL[1], P32 + SMALL[2], P32 + SMALL[3]}, true);
    big_history(0, {P32 + SMALL[4], P32 + SMALL[5], P32 + SMALL[6], P32 + SMALL[7], P32 + SMALL[8]}, false);
    big_history(0, {P32 + (1ULL << 16) + 100}, false);
    if (do33) big_history(0, {P33 + 100}, false);
    big_asm(P32 + 63, 0);
    big_asm(P32 + 256, 1);
    big_asm(P31 + 255, 2);
#else
    big_history(0xffffffffULL, {P32 + 100}, true);                // request numbers 2^32-1, 2^32
    big_history(0x8123456789abcdefULL, {P32 + 255, P31 + 64}, true);
    big_history(0xfffffffffffffffeULL, {P32 + 1}, true);          // … 2^64-2, 2^64-1 (wrap)
#endif
    return 0;
  }
  static const size_t BASE[] = {0, 1, 63, 64, 65, 255, 256, 257};
  static const size_t MORE[] = {0, 1, 2, 63, 64, 65, 127, 128, 129, 191, 192, 193, 255, 256, 257, 319, 320, 321, 511, 512, 513, 1023, 1024, 1025, 0, 64};
  const size_t BIG = (1u << 20) + 1;
  u8 key[32];

#ifndef FRB_WHITEBOX
  // portable C vs the specification's examples (no fork needed)
  spec_vectors(g);
  fflush(stdout);

  // J0: the lengths of the property text, buffer flush to the trailing guard page (2^20+1 once)
  rnd_key(key);
  run_job(job++, [&] {
    std::vector<Req> r;
    for (size_t l : BASE) r.push_back({l, 0, 0, true});
    r.push_back({BIG, 0, 0, true});
    for (size_t l : MORE) r.push_back({l, 0, 0, true});
    run_history(key, 0, r);
  });
  // J1: same, flush to the leading guard page (2^20+63 bytes)
  rnd_key(key);
  run_job(job++, [&] {
    std::vector<Req> r;
    for (size_t l : BASE) r.push_back({l, 1, 0, true});
    r.push_back({BIG + 62, 1, 0, true});
    for (size_t l : MORE) r.push_back({l, 1, 0, true});
    run_history(key, 0, r);
  });
  // J2: every alignment 0…63, interior placement with red zones, boundary lengths rotating + one random length
  rnd_key(key);
  uint64_t js = g.next();
  run_job(job++, [&] {
    Rng g(js);
    std::vector<Req> r;
    for (size_t a = 0; a < 64; a++) {
      r.push_back({BASE[1 + (a + seed) % 7], 2, a, true});
      r.push_back({rnd_len(g), 2, a, true});
      if (th) for (size_t l : BASE) r.push_back({l, 2, a, true});
    }
    run_history(key, 0, r);
  });
  // J3: the first request has length 0 / the first request is long; all-zero and all-ones keys
  memset(key, 0, 32);
  run_job(job++, [&] { run_history(key, 0, {{0, 0, 0, true}, {0, 1, 0, true}, {0, 2, 5, true}, {65, 0, 0, true}, {0, 0, 0, true}, {1, 0, 0, true}}); });
  memset(key, 0xff, 32);
  run_job(job++, [&] { run_history(key, 0, {{4097, 0, 0, true}, {0, 2, 9, true}, {63, 1, 0, true}, {257, 0, 0, true}}); });
  // lengths whose low 16 bits fall in the small classes while the high part is non-zero (k·2^16 + small): whole output through Lean
  rnd_key(key);
  js = g.next();
  run_job(job++, [&] {
    Rng gj(js);
    std::vector<Req> r;
    size_t t = 0;
    for (uint64_t sm : SMALL) if (sm < 4500) r.push_back({(size_t)(65536 + sm), (int)(t++ % 3), gj.below(64), true});
    r.push_back({2 * 65536 + 100, 0, 0, true});
    r.push_back({3 * 65536 + 255, 1, 0, true});
    r.push_back({4 * 65536 + 64, 2, gj.below(64), true});
    r.push_back({8 * 65536 + 1, 2, gj.below(64), true});
    run_history(key, 0, r);
  });
  // 2^24 + small and 2^26 + small: big requests (portable C verdict on the whole buffer + windows for the driver)
  big_history(0, {P24 + SMALL[(seed + 0) % 9], P24 + SMALL[(seed + 3) % 9], P24 + SMALL[(seed + 6) % 9]}, true);
  big_history(0, {P24 + SMALL[(seed + 1) % 9], P24 + SMALL[(seed + 4) % 9], P24 + SMALL[(seed + 7) % 9]}, false);
  big_history(0, {P24 + SMALL[(seed + 2) % 9], P24 + SMALL[(seed + 5) % 9], P24 + SMALL[(seed + 8) % 9], P26 + SMALL[(seed + 5) % 8]}, false);
  big_asm(P24 + SMALL[1 + seed % 8], 0);
  big_asm(P24 + SMALL[1 + (seed + 4) % 8], 2);
  // J4…: random histories, random placement
  for (size_t h = 0; h < (th ? 12u : 3u); h++) {
    rnd_key(key);
    js = g.next();
    run_job(job++, [&] {
      Rng g(js);
      std::vector<Req> r;
      size_t n = th ? 200 : 60;
      for (size_t i = 0; i < n; i++) r.push_back({rnd_len(g), (int)g.below(3), g.below(64), true});
      run_history(key, 0, r);
    });
  }
  // J: the carries into nonce bytes 1 and 2 reached natively (silent zero-length requests in between)
  rnd_key(key);
  run_job(job++, [&] {
    std::vector<Req> r;
    for (size_t i = 0; i < 254; i++) r.push_back({0, 0, 0, false});
    for (size_t i = 0; i < 4; i++) r.push_back({BASE[1 + i], 0, 0, true});           // requests 254…257
    for (size_t i = 258; i < 65534; i++) r.push_back({i < 30000 ? (size_t)0 : (size_t)5, 0, 0, false});
    for (size_t i = 0; i < 4; i++) r.push_back({BASE[4 + i % 4], (int)(i % 3), i, true});  // requests 65534…65537
    run_history(key, 0, r);
  });
  // direct calls of the assembly routine with arbitrary nonces
  js = g.next();
  run_job(job++, [&] { Rng gj(js); run_asm_direct(gj, th ? 1500 : 180); });
  // direct calls: every nonce byte / key word x every route through the assembly (one job per pass: a fault loses one pass only)
  for (int pass = 0; pass < (th ? 3 : 1); pass++) {
    js = g.next();
    run_job(job++, [&] { Rng gj(js); run_asm_structured(gj); });
  }
#else
  // white box: nonce preset to reachable values whose increment carries far / wraps
  static const uint64_t STARTS[] = {0xfeULL, 0xfffeULL, 0xfffffeULL, 0xfffffffeULL, 0xfffffffffeULL, 0xfffffffffffeULL,
                                    0xfffffffffffffeULL, 0xfffffffffffffffeULL, 0x00ffffffffULL, 0x0123456789abcdefULL, 0ULL,
                                    0x7fffffffffffffffULL, 0x8000000000000000ULL - 2, 0xff00ff00ff00fffeULL};
  for (uint64_t st : STARTS) {
    rnd_key(key);
    uint64_t js = g.next();
    run_job(job++, [&] {
      Rng g(js);
      std::vector<Req> r;
      for (size_t i = 0; i < 5; i++) r.push_back({i == 2 ? (size_t)0 : (i % 2 ? rnd_len(g) : rnd_len(g) % 300), (int)g.below(3), g.below(64), true});
      run_history(key, st, r);
    });
  }
  // product {nonce classes} x {length classes}: the static nonce is preset to the class value, the FIRST request served there has
  // the class length (so the long requests, i.e. the 4-block loop of the assembly, meet every nonce byte pattern), a second
  // request of a rotating length follows (nonce advanced by exactly one whatever the length was; wrap 2^64-1 -> 0 included).
  {
    std::vector<uint64_t> nc = nonce_classes(g);
    size_t pi = 0;
    for (uint64_t st : nc) {
      rnd_key(key);
      for (size_t li = 0; li < NPATHLEN; li++, pi++) {
        size_t l1 = PATHLEN[li], l2 = PATHLEN[(li + 1 + pi / NPATHLEN) % NPATHLEN];
        int s1 = (int)(pi % 3), s2 = (int)((pi + 1) % 3);
        size_t a1 = g.below(64), a2 = g.below(64);
        run_job(job++, [&] { run_history(key, st, {{l1, s1, a1, true}, {l2, s2, a2, true}}); });
        if (th) {   // the same pair reached after a short history instead of as first request
          uint64_t js = g.next();
          run_job(job++, [&] {
            Rng gj(js);
            std::vector<Req> r;
            size_t pre = 1 + gj.below(3);
            for (size_t i = 0; i < pre; i++) r.push_back({rnd_len(gj) % 300, (int)gj.below(3), gj.below(64), true});
            r.push_back({l1, s2, a2, true});
            run_history(key, st - pre, r);
          });
        }
      }
    }
  }
  // big requests at request numbers whose high nonce word is non-zero / about to become non-zero
  big_history(0xfffffffeULL, {P24 + SMALL[1 + seed % 8], P24 + SMALL[1 + (seed + 3) % 8], P24 + SMALL[1 + (seed + 6) % 8]}, false);
  big_history(g.next() | 0x0101010101010101ULL, {P24 + SMALL[(seed + 2) % 9], P26 + SMALL[(seed + 7) % 9]}, true);
  for (size_t h = 0; h < (th ? 40u : 6u); h++) {
    rnd_key(key);
    uint64_t st = g.next() >> g.below(64);
    if (h % 2) st |= 0xff;
    uint64_t js = g.next();
    run_job(job++, [&] {
      Rng g(js);
      std::vector<Req> r;
      for (size_t i = 0; i < 6; i++) r.push_back({i % 2 ? rnd_len(g) : rnd_len(g) % 400, (int)g.below(3), g.below(64), true});
      run_history(key, st, r);
    });
  }
#endif
  return 0;
}
