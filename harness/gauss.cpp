// C10/C11 harness: FastGaussianNoise<in_class, int32_t, depth> driven through a scripted nfl::fastrandombytes.
//
// Lines (see lean/Driver/GaussH.lean):
//   gtab  id W depth wp nb rc <nb*wp barrier words> <n1 items…> <nrows (row nitems items…)…> => 1
//         item = 0 cnt val (run of unflagged cells with empty list) | 1 val k idx… (flagged) | 2 val k idx… (unflagged, non-empty list)
//   gdec  id kind u_0 … u_{wp-1} => out                      getNoise(out,1) on the scripted string u
//   gstep id j => u_0 … u_{wp-1}                             smallest string with output > v0+j, found by bisection on the implementation
//   gn    id rlen bufLen kind <nreq*bufLen words> => nreq lenOK wrOK out_0 … out_{rlen-1}
//   gtv   W lam log2m sigma_milli c_milli ctor => ratio_ppm wp nb hypOK   TV(sampler, D_{Z,sigma,c}) / (2^-lam/m), in 1e-6 units (rounded up)
//   glife W depth lam log2m sigma_milli c_milli ctor => nb wp hypOK   constructor / getNoise / destructor under the sanitizers
// Before every construction / call the parameters are written to stderr ("PARAMS …"): after a sanitizer abort the
// last such line is the concrete failing input.
#include "common.hpp"
#include <gmp.h>
#include <mpfr.h>
#include <functional>
#include <map>
#include <algorithm>
#include <cmath>
#include "FastGaussianNoise.hpp"

using namespace vh;

// ------------------------------------------------------------------------------------------------ scripted randomness
static std::function<void(size_t req, uint8_t* dst, size_t nbytes)> g_fill;
static std::vector<std::vector<uint8_t>> g_reqs;
namespace nfl {
void fastrandombytes(unsigned char* r, unsigned long long n) {
  std::vector<uint8_t> v(n, 0);
  if (g_fill) g_fill(g_reqs.size(), v.data(), n);
  if (n) memcpy(r, v.data(), n);
  g_reqs.push_back(std::move(v));
}
}  // namespace nfl

static char g_params[512];
#define PARAMS(...) do { snprintf(g_params, sizeof g_params, __VA_ARGS__); fprintf(stderr, "PARAMS %s\n", g_params); fflush(stderr); } while (0)

static int g_next_id = 1;
static const int32_t SENTINEL = INT32_MIN + 7;

struct P { double sigma; unsigned lam; unsigned log2m; double c; int ctor; };  // ctor 0: double centre, 1: mpfr centre
static long milli(double x) { return lround(x * 1000.0); }

template <class T, unsigned D> struct Obj {
  typedef nfl::FastGaussianNoise<T, int32_t, D> FG;
  FG* g = nullptr;
  P p;
  int id = 0;
  unsigned wp, nb, W;
  std::map<const T*, int> bidx;

  explicit Obj(const P& p_) : p(p_) {
    W = 1u << (8 * sizeof(T));
    PARAMS("construct W=%u depth=%u sigma=%.17g lambda=%u m=2^%u centre=%.17g ctor=%d", W, D, p.sigma, p.lam, p.log2m, p.c, p.ctor);
    if (p.ctor == 0) g = new FG(p.sigma, p.lam, 1u << p.log2m, p.c);
    else {
      mpfr_t c; mpfr_init2(c, 256); mpfr_set_d(c, p.c, MPFR_RNDN);
      g = new FG(p.sigma, p.lam, 1u << p.log2m, c);
      mpfr_clear(c);
    }
    wp = g->_word_precision; nb = g->_number_of_barriers;
    for (unsigned i = 0; i < nb; i++) bidx[g->barriers[i]] = (int)i;
  }
  ~Obj() {
    PARAMS("destroy W=%u depth=%u sigma=%.17g lambda=%u m=2^%u centre=%.17g ctor=%d", W, D, p.sigma, p.lam, p.log2m, p.c, p.ctor);
    delete g;
  }

  // hypotheses of the proved part, evaluated on the live barriers: sorted, last barrier starts with two all-ones words
  int hyp_ok() {
    for (unsigned i = 0; i + 1 < nb; i++) if (memcmp_words(g->barriers[i], g->barriers[i + 1]) > 0) return 0;
    const T ones = (T)~(T)0;
    if (wp < 2 || g->barriers[nb - 1][0] != ones || g->barriers[nb - 1][1] != ones) return 0;
    return nb % 2 == 1;
  }
  int memcmp_words(const T* a, const T* b) { for (unsigned k = 0; k < wp; k++) { if (a[k] < b[k]) return -1; if (a[k] > b[k]) return 1; } return 0; }

  // ---- table dump ----
  void items(const nfl::output<T, int32_t>* t, std::vector<long long>& o) {
    size_t nitems = 0, at = o.size();
    o.push_back(0);
    for (unsigned i = 0; i < W;) {
      if (!t[i].flag && t[i].l_b_ptr.empty()) {
        unsigned j = i;
        while (j < W && !t[j].flag && t[j].l_b_ptr.empty() && t[j].val == t[i].val) j++;
        o.push_back(0); o.push_back(j - i); o.push_back(t[i].val);
        i = j;
      } else {
        o.push_back(t[i].flag ? 1 : 2); o.push_back(t[i].val); o.push_back((long long)t[i].l_b_ptr.size());
        for (T* ptr : t[i].l_b_ptr) { auto it = bidx.find(ptr); o.push_back(it == bidx.end() ? -1 : it->second); }
        i++;
      }
      nitems++;
    }
    o[at] = (long long)nitems;
  }
  void emit_tab() {
    id = g_next_id++;
    printf("gtab %d %u %u %u %u %d", id, W, D, wp, nb, g->rounded_center);
    for (unsigned i = 0; i < nb; i++) for (unsigned j = 0; j < wp; j++) printf(" %u", (unsigned)g->barriers[i][j]);
    std::vector<long long> o;
    items(g->lu_table, o);
    if (D == 2) {
      size_t at = o.size(); o.push_back(0); long long rows = 0;
      for (unsigned i = 0; i < W; i++) if (g->lu_table2[i]) { o.push_back(i); items(g->lu_table2[i], o); rows++; }
      o[at] = rows;
    } else o.push_back(0);
    for (long long v : o) printf(" %lld", v);
    printf(" => 1\n");
  }

  // ---- one output on a scripted string ----
  int32_t eval1(const std::vector<T>& u) {
    g_reqs.clear();
    g_fill = [&](size_t req, uint8_t* dst, size_t n) {
      if (req == 0) memcpy(dst, u.data(), std::min(n, u.size() * sizeof(T)));
    };
    int32_t* out = new int32_t[1];
    out[0] = SENTINEL;
    g->getNoise(out, 1);
    int32_t r = out[0];
    delete[] out;
    return r;
  }
  void emit_dec(int kind, const std::vector<T>& u) {
    int32_t r = eval1(u);
    printf("gdec %d %d", id, kind);
    for (T w : u) printf(" %u", (unsigned)w);
    printf(" => %d\n", r);
  }
  std::vector<T> words_of(const mpz_t z) {
    std::vector<T> u(wp, 0);
    size_t cnt = 0;
    std::vector<T> tmp(wp + 2, 0);
    mpz_export(tmp.data(), &cnt, 1, sizeof(T), 0, 0, z);
    for (size_t i = 0; i < cnt && i < wp; i++) u[wp - cnt + i] = tmp[i];
    return u;
  }
  std::vector<T> barrier(unsigned j) { return std::vector<T>(g->barriers[j], g->barriers[j] + wp); }

  // smallest u with f(u) > v0 + j, by bisection over the strings (every probe also goes to the driver when `emit`)
  void bisect(unsigned j, bool emit) {
    long target = (long)g->rounded_center - ((long)nb - 1) / 2 + j + 1;
    mpz_t lo, hi, mid;
    mpz_inits(lo, hi, mid, nullptr);
    mpz_set_ui(hi, 1); mpz_mul_2exp(hi, hi, wp * 8 * sizeof(T)); mpz_sub_ui(hi, hi, 1);
    printf("gstep %d %u =>", id, j);
    if (eval1(words_of(hi)) < target) { printf(" -1\n"); mpz_clears(lo, hi, mid, nullptr); return; }
    std::vector<std::vector<T>> probes;
    while (mpz_cmp(lo, hi) < 0) {
      mpz_add(mid, lo, hi); mpz_fdiv_q_2exp(mid, mid, 1);
      auto u = words_of(mid);
      if (emit) probes.push_back(u);
      if (eval1(u) >= target) mpz_set(hi, mid); else { mpz_add_ui(lo, mid, 1); }
    }
    for (T w : words_of(lo)) printf(" %u", (unsigned)w);
    printf("\n");
    for (auto& u : probes) emit_dec(0, u);
    mpz_clears(lo, hi, mid, nullptr);
  }

  // ---- a whole getNoise call on a scripted stream ----
  // kinds: 0 random, 1 all-zero, 2 all-ones, 3 copies of barriers with the last word perturbed, 4 exact barrier copies,
  //        5 random with first words drawn from flagged cells, 6 barrier on a long prefix then random
  void run_gn(uint64_t rlen, int kind, Rng& rng) {
    PARAMS("getNoise id=%d W=%u depth=%u sigma=%.17g lambda=%u m=2^%u centre=%.17g ctor=%d rlen=%llu stream-kind=%d seed=%llu",
           id, W, D, p.sigma, p.lam, p.log2m, p.c, p.ctor, (unsigned long long)rlen, kind, (unsigned long long)env_u64("VERIF_SEED", 1));
    g_reqs.clear();
    uint64_t s0 = rng.next();
    g_fill = [&, s0, kind](size_t req, uint8_t* dst, size_t n) {
      Rng r(s0 + 77 * req);
      size_t nw = n / sizeof(T);
      std::vector<T> w(nw + 1, 0);
      switch (kind) {
        case 0: for (auto& x : w) x = (T)r.next(); break;
        case 1: break;
        case 2: for (auto& x : w) x = (T)~(T)0; break;
        case 3: case 4: case 6:
          for (size_t i = 0; i < nw;) {
            unsigned j = (unsigned)r.below(nb);
            size_t keep = kind == 6 ? 1 + r.below(wp) : wp;
            unsigned k = 0;
            for (; k < wp && i < nw; k++, i++) w[i] = k < keep ? g->barriers[j][k] : (T)r.next();
            if (kind == 3 && k == wp) w[i - 1] = (T)(w[i - 1] + (int)r.below(3) - 1);   // last word -1 / 0 / +1
          }
          break;
        case 5:
          for (auto& x : w) { x = (T)r.next(); if (r.below(2)) x = g->barriers[r.below(nb)][r.below(2) % wp]; }
          break;
      }
      if (n) memcpy(dst, w.data(), n);
    };
    int32_t* out = new int32_t[rlen];   // exact size: a write past rlen outputs is a heap overflow for ASan
    for (uint64_t i = 0; i < rlen; i++) out[i] = SENTINEL;
    g->getNoise(out, rlen);
    size_t nreq = g_reqs.size();
    size_t blen = nreq ? g_reqs[0].size() / sizeof(T) : 0;
    int lenok = nreq >= 1;
    for (auto& v : g_reqs) if (v.size() != blen * sizeof(T)) lenok = 0;
    int wrok = 1;
    for (uint64_t i = 0; i < rlen; i++) if (out[i] == SENTINEL) wrok = 0;
    printf("gn %d %llu %zu %d", id, (unsigned long long)rlen, blen, kind);
    for (auto& v : g_reqs) for (size_t i = 0; i < blen; i++) {
      T x = 0; if ((i + 1) * sizeof(T) <= v.size()) memcpy(&x, v.data() + i * sizeof(T), sizeof(T));
      printf(" %u", (unsigned)x);
    }
    printf(" => %zu %d %d", nreq, lenok, wrok);
    for (uint64_t i = 0; i < rlen; i++) printf(" %d", out[i]);
    printf("\n");
    delete[] out;
  }
};

// ------------------------------------------------------------------------------------------------ ideal distribution
// rho(x) = exp(-(x-c)^2/(2 sigma^2)) at PREC bits; sum over |x-c| <= R computed term by term, the rest bounded by
// sum_{x >= x0} rho(x) <= rho(x0) (1 + sigma^2/(x0-c))   (terms decrease, integral comparison + Mills' ratio), both sides.
static const mpfr_prec_t PREC = 1536;
struct Ideal {
  double sigma, c; long lo, hi;        // explicit range [lo, hi]
  std::vector<__mpfr_struct> rho;      // rho[x-lo]
  mpfr_t S, tail;                      // S = explicit sum, tail = upper bound of the mass outside [lo,hi] (unnormalised)
};
static void rho_at(mpfr_t r, long x, const mpfr_t c, const mpfr_t inv2s2) {
  mpfr_set_si(r, x, MPFR_RNDN); mpfr_sub(r, r, c, MPFR_RNDN); mpfr_sqr(r, r, MPFR_RNDN); mpfr_mul(r, r, inv2s2, MPFR_RNDN);
  mpfr_neg(r, r, MPFR_RNDN); mpfr_exp(r, r, MPFR_RNDN);
}
static Ideal* ideal_for(double sigma, double c) {
  static auto& cache = *new std::map<std::pair<double, double>, Ideal*>;   // never destroyed: stays reachable for LSan
  auto key = std::make_pair(sigma, c);
  auto it = cache.find(key);
  if (it != cache.end()) return it->second;
  Ideal* I = new Ideal; I->sigma = sigma; I->c = c;
  // rho < 2^-1000 beyond R = sigma*sqrt(2*1000*ln 2) ~ 37.3 sigma
  long R = (long)ceil(sigma * 37.3) + 2;
  I->lo = (long)floor(c) - R; I->hi = (long)ceil(c) + R;
  mpfr_t cc, s2, t; mpfr_inits2(PREC, cc, s2, t, I->S, I->tail, nullptr);
  mpfr_set_d(cc, c, MPFR_RNDN);
  mpfr_set_d(s2, sigma, MPFR_RNDN); mpfr_sqr(s2, s2, MPFR_RNDN); mpfr_mul_ui(s2, s2, 2, MPFR_RNDN); mpfr_ui_div(s2, 1, s2, MPFR_RNDN);
  I->rho.resize(I->hi - I->lo + 1);
  mpfr_set_ui(I->S, 0, MPFR_RNDN);
  for (long x = I->lo; x <= I->hi; x++) {
    mpfr_ptr r = &I->rho[x - I->lo]; mpfr_init2(r, PREC); rho_at(r, x, cc, s2); mpfr_add(I->S, I->S, r, MPFR_RNDN);
  }
  // tails: x0 = hi+1 and lo-1
  mpfr_set_ui(I->tail, 0, MPFR_RNDN);
  for (int side = 0; side < 2; side++) {
    long x0 = side ? I->hi + 1 : I->lo - 1;
    mpfr_t r, d; mpfr_inits2(PREC, r, d, nullptr);
    rho_at(r, x0, cc, s2);
    mpfr_set_si(d, x0, MPFR_RNDN); mpfr_sub(d, d, cc, MPFR_RNDN); mpfr_abs(d, d, MPFR_RNDN);   // |x0-c|
    mpfr_set_d(t, sigma, MPFR_RNDN); mpfr_sqr(t, t, MPFR_RNDN); mpfr_div(t, t, d, MPFR_RNDU); mpfr_add_ui(t, t, 1, MPFR_RNDU);
    mpfr_mul(r, r, t, MPFR_RNDU); mpfr_add(I->tail, I->tail, r, MPFR_RNDU);
    mpfr_clears(r, d, nullptr);
  }
  mpfr_clears(cc, s2, t, nullptr);
  cache[key] = I;
  return I;
}

// TV between the sampler's exact output law (barrier differences over W^wp) and D_{Z,sigma,c}; returns ceil(1e6 * TV_upper / (2^-lam/m))
template <class T, unsigned D> static long long tv_ratio_ppm(Obj<T, D>& o) {
  Ideal* I = ideal_for(o.p.sigma, o.p.c);
  unsigned wp = o.wp, nb = o.nb;
  long v0 = (long)o.g->rounded_center - ((long)nb - 1) / 2;
  mpfr_t acc, pj, dj, t, scale;
  mpfr_inits2(PREC, acc, pj, dj, t, scale, nullptr);
  mpfr_set_ui(scale, 1, MPFR_RNDN); mpfr_mul_2exp(scale, scale, wp * 8 * sizeof(T), MPFR_RNDN);   // W^wp
  mpz_t prev, cur, diff; mpz_inits(prev, cur, diff, nullptr);
  mpfr_set_ui(acc, 0, MPFR_RNDN);
  // integers inside the sampler's range v0 … v0+nb
  for (unsigned j = 0; j <= nb; j++) {
    if (j < nb) mpz_import(cur, wp, 1, sizeof(T), 0, 0, o.g->barriers[j]);
    else { mpz_set_ui(cur, 1); mpz_mul_2exp(cur, cur, wp * 8 * sizeof(T)); }
    mpz_sub(diff, cur, prev);                        // negative if the barriers are not sorted: |.| below still counts it
    mpz_set(prev, cur);
    mpfr_set_z(pj, diff, MPFR_RNDN); mpfr_div(pj, pj, scale, MPFR_RNDN);
    long x = v0 + (long)j;
    if (x >= I->lo && x <= I->hi) mpfr_div(dj, &I->rho[x - I->lo], I->S, MPFR_RNDN); else mpfr_set_ui(dj, 0, MPFR_RNDN);
    mpfr_sub(t, pj, dj, MPFR_RNDN); mpfr_abs(t, t, MPFR_RNDN); mpfr_add(acc, acc, t, MPFR_RNDU);
  }
  // integers outside it (explicit part), then the analytic tail bound
  for (long x = I->lo; x <= I->hi; x++) {
    if (x >= v0 && x <= v0 + (long)nb) continue;
    mpfr_div(dj, &I->rho[x - I->lo], I->S, MPFR_RNDU); mpfr_add(acc, acc, dj, MPFR_RNDU);
  }
  mpfr_div(t, I->tail, I->S, MPFR_RNDU); mpfr_mul_ui(t, t, 3, MPFR_RNDU); mpfr_add(acc, acc, t, MPFR_RNDU);  // tail mass + normalisation slack
  mpfr_div_2ui(acc, acc, 1, MPFR_RNDU);             // the 1/2
  // ratio to 2^-lam / m
  mpfr_mul_2ui(acc, acc, o.p.lam + o.p.log2m, MPFR_RNDU);
  mpfr_mul_ui(acc, acc, 1000000, MPFR_RNDU);
  mpfr_ceil(acc, acc);
  long long r = mpfr_cmp_d(acc, 9e18) > 0 ? (long long)9e18 : (long long)mpfr_get_d(acc, MPFR_RNDU);
  mpfr_clears(acc, pj, dj, t, scale, nullptr);
  mpz_clears(prev, cur, diff, nullptr);
  return r;
}

// ------------------------------------------------------------------------------------------------ streams
template <class T, unsigned D> static void c10_config(const P& p, Rng& rng, unsigned max_bisect, bool emit_probes, unsigned cell_budget) {
  Obj<T, D> o(p);
  o.emit_tab();
  unsigned wp = o.wp, nb = o.nb, W = o.W;
  const T ones = (T)~(T)0;
  // (1) the implementation's step function, recovered by bisection
  std::vector<unsigned> js;
  if (nb <= max_bisect) for (unsigned j = 0; j < nb; j++) js.push_back(j);
  else {
    for (unsigned j = 0; j < max_bisect / 4; j++) { js.push_back(j); js.push_back(nb - 1 - j); }
    js.push_back(nb / 2); js.push_back(nb / 2 - 1); js.push_back(nb / 2 + 1);
    while (js.size() < max_bisect) js.push_back((unsigned)rng.below(nb));
  }
  for (unsigned j : js) o.bisect(j, emit_probes);
  // (2) each barrier, its predecessor and successor string
  for (unsigned j : js) {
    mpz_t z; mpz_init(z); mpz_import(z, wp, 1, sizeof(T), 0, 0, o.g->barriers[j]);
    o.emit_dec(3, o.words_of(z));
    if (mpz_sgn(z) > 0) { mpz_sub_ui(z, z, 1); o.emit_dec(3, o.words_of(z)); mpz_add_ui(z, z, 1); }
    mpz_add_ui(z, z, 1); if (mpz_sizeinbase(z, 2) <= wp * 8 * sizeof(T)) o.emit_dec(3, o.words_of(z));
    mpz_clear(z);
  }
  // (3) first-level cell boundaries: c 00…0 and c FF…F for every cell (sampled when the budget is smaller than W)
  std::vector<unsigned> cells;
  if (W <= cell_budget) for (unsigned c = 0; c < W; c++) cells.push_back(c);
  else {
    for (unsigned c = 0; c < W; c++) if (o.g->lu_table[c].flag) for (int d = -1; d <= 1; d++) if ((long)c + d >= 0 && c + d < W) cells.push_back(c + d);
    cells.push_back(0); cells.push_back(W - 1);
    while (cells.size() < cell_budget) cells.push_back((unsigned)rng.below(W));
  }
  for (unsigned c : cells) {
    std::vector<T> u(wp, 0); u[0] = (T)c; o.emit_dec(1, u);
    std::fill(u.begin() + 1, u.end(), ones); o.emit_dec(1, u);
  }
  // (4) second-level cell boundaries under every flagged first-level cell
  if (D == 2) {
    std::vector<unsigned> rows;
    for (unsigned c = 0; c < W; c++) if (o.g->lu_table[c].flag) rows.push_back(c);
    size_t per_row = std::max<size_t>(8, (size_t)cell_budget * 4 / std::max<size_t>(1, rows.size()));
    for (unsigned c1 : rows) {
      std::vector<unsigned> c2s;
      if (W <= per_row) for (unsigned c = 0; c < W; c++) c2s.push_back(c);
      else {
        if (o.g->lu_table2[c1]) for (unsigned c = 0; c < W; c++) if (o.g->lu_table2[c1][c].flag) for (int d = -1; d <= 1; d++) if ((long)c + d >= 0 && c + d < W) c2s.push_back(c + d);
        c2s.push_back(0); c2s.push_back(W - 1);
        while (c2s.size() < per_row) c2s.push_back((unsigned)rng.below(W));
      }
      for (unsigned c2 : c2s) {
        std::vector<T> u(wp, 0); u[0] = (T)c1; u[1] = (T)c2; o.emit_dec(2, u);
        std::fill(u.begin() + 2, u.end(), ones); o.emit_dec(2, u);
      }
    }
  }
  // (5) random strings, all-zero, all-ones
  for (int i = 0; i < 200; i++) { std::vector<T> u(wp); for (auto& x : u) x = (T)rng.next(); o.emit_dec(4, u); }
  o.emit_dec(4, std::vector<T>(wp, 0));
  o.emit_dec(4, std::vector<T>(wp, ones));
}

template <class T, unsigned D> static void c11_config(const P& p, Rng& rng, const std::vector<uint64_t>& rlens, int nkinds_per_len) {
  Obj<T, D> o(p);
  o.emit_tab();
  int k = 0;
  for (uint64_t rlen : rlens)
    for (int i = 0; i < nkinds_per_len; i++) o.run_gn(rlen, (k++) % 7, rng);
}

template <class T, unsigned D> static void tv_one(const P& p) {
  Obj<T, D> o(p);
  long long r = tv_ratio_ppm(o);
  printf("gtv %u %u %u %ld %ld %d => %lld %u %u %d\n", o.W, p.lam, p.log2m, milli(p.sigma), milli(p.c), p.ctor, r, o.wp, o.nb, o.hyp_ok());
}

template <class T, unsigned D> static void life_one(const P& p, Rng& rng) {
  Obj<T, D>* o = new Obj<T, D>(p);
  static const uint64_t lens[] = {0, 1, 2, 3, 7, 33};
  for (int i = 0; i < 2; i++) {
    uint64_t rlen = lens[rng.below(6)];
    int kind = (int)rng.below(7);
    PARAMS("getNoise(lifecycle) W=%u depth=%u sigma=%.17g lambda=%u m=2^%u centre=%.17g ctor=%d rlen=%llu stream-kind=%d", o->W, D, p.sigma, p.lam, p.log2m, p.c, p.ctor, (unsigned long long)rlen, kind);
    Rng r2(rng.next());
    g_reqs.clear();
    unsigned nb = o->nb, wp = o->wp; auto* g = o->g;
    g_fill = [&](size_t, uint8_t* dst, size_t n) {
      std::vector<T> w(n / sizeof(T) + 1, 0);
      for (size_t i = 0; i < w.size(); i++) {
        switch (kind) { case 1: break; case 2: w[i] = (T)~(T)0; break; case 0: case 5: w[i] = (T)r2.next(); break;
          default: w[i] = g->barriers[(i / wp) % nb][i % wp]; }
      }
      if (n) memcpy(dst, w.data(), n);
    };
    int32_t* out = new int32_t[rlen];
    g->getNoise(out, rlen);
    delete[] out;
  }
  printf("glife %u %u %u %u %ld %ld %d => %u %u %d\n", o->W, D, p.lam, p.log2m, milli(p.sigma), milli(p.c), p.ctor, o->nb, o->wp, o->hyp_ok());
  delete o;
}

static const double SIGMAS[] = {0.3, 1, 3.19, 10, 100, 300};
static const unsigned LAMS[] = {32, 64, 128, 256};
static const unsigned LOG2MS[] = {0, 10, 20};
static const double CENTRES[] = {0, 0.5, -0.25, 1000.5};

int main(int argc, char** argv) {
  setvbuf(stdout, nullptr, _IOLBF, 0);
  const char* mode = argc > 1 ? argv[1] : "c10";
  uint64_t seed = env_u64("VERIF_SEED", 1);
  Rng rng(seed * 1315423911ULL + (mode[1] == '1' && mode[2] == '1' ? 11 : 10));
  bool th = thorough();

  if (!strcmp(mode, "tv")) {
    // parameter grid of the property; quick = sub-grid + random draws, thorough = full grid + more random draws
    for (double s : SIGMAS) for (unsigned l : LAMS) for (unsigned lm : LOG2MS) for (double c : CENTRES) {
      bool inq = s < 100 || (s == 100 && lm != 10) || (l == 128 && lm != 10 && (c == 0 || c == 1000.5));   // quick: full grid up to sigma = 10, sub-grid above
      if (!th && !inq) continue;
      P p{s, l, lm, c, 0};
      tv_one<uint8_t, 1>(p);
      tv_one<uint16_t, 1>(p);
    }
    int nr = th ? 400 : 40;
    for (int i = 0; i < nr; i++) {
      // sigma log-uniform in [0.3,300] (capped in quick), lambda in [32,256], m = 2^[0,20], centre any real
      double smax = th ? 300.0 : 40.0;
      double s = 0.3 * exp((double)rng.below(1000001) / 1e6 * log(smax / 0.3));
      unsigned l = 32 + (unsigned)rng.below(225), lm = (unsigned)rng.below(21);
      double c; switch (rng.below(4)) { case 0: c = (double)(long)rng.below(2001) - 1000 + 0.5; break;
        case 1: c = ((double)rng.below(2000001) - 1e6) / 1e3; break; case 2: c = ((double)rng.below(1001)) / 1000.0 - 0.5; break;
        default: c = (double)(long)rng.below(200001) - 100000; }
      P p{s, l, lm, c, (int)rng.below(2)};
      if (rng.below(2)) tv_one<uint8_t, 1>(p); else tv_one<uint16_t, 1>(p);
    }
    return 0;
  }

  if (!strcmp(mode, "c10")) {
    unsigned mb = th ? 400 : 48;
    // 8-bit index: all first-level cells, all second-level cells of flagged rows
    c10_config<uint8_t, 1>(P{3.19, 128, 0, 0, 0}, rng, mb, true, 256);
    c10_config<uint8_t, 2>(P{3.19, 128, 0, 0, 0}, rng, mb, true, 256);
    c10_config<uint8_t, 2>(P{0.3, 32, 0, 0.5, 0}, rng, mb, true, 256);
    c10_config<uint8_t, 1>(P{10, 64, 10, -0.25, 0}, rng, th ? mb : 24, false, 256);
    c10_config<uint8_t, 2>(P{1, 256, 20, 1000.5, 1}, rng, th ? mb : 16, false, 256);
    c10_config<uint8_t, 2>(P{100, 128, 0, 0, 0}, rng, th ? 64 : 8, false, 256);
    // 16-bit index
    c10_config<uint16_t, 1>(P{3.19, 128, 0, 0, 0}, rng, th ? mb : 16, false, th ? 65536 : 1500);
    c10_config<uint16_t, 2>(P{0.3, 32, 0, 0.5, 0}, rng, mb, false, th ? 65536 : 1500);
    c10_config<uint16_t, 2>(P{3.19, 128, 0, 0, 0}, rng, th ? mb : 8, false, th ? 8192 : 1000);
    // seed-dependent configurations
    int nr = th ? 12 : 2;
    for (int i = 0; i < nr; i++) {
      double s = 0.3 * exp((double)rng.below(1000001) / 1e6 * log(20.0 / 0.3));
      P p{s, 32 + (unsigned)rng.below(225), (unsigned)rng.below(21), ((double)rng.below(4001) - 2000) / 4.0, (int)rng.below(2)};
      switch (rng.below(th ? 4 : 3)) {
        case 0: c10_config<uint8_t, 1>(p, rng, 12, false, 256); break;
        case 1: c10_config<uint8_t, 2>(p, rng, 12, false, 256); break;
        case 2: c10_config<uint16_t, 1>(p, rng, 8, false, 1000); break;
        default: if (s <= 4) c10_config<uint16_t, 2>(p, rng, 8, false, 1000); else c10_config<uint8_t, 2>(p, rng, 12, false, 256);
      }
    }
    if (th) {
      c10_config<uint8_t, 1>(P{300, 256, 20, 1000.5, 0}, rng, 32, false, 256);
      c10_config<uint8_t, 2>(P{300, 256, 20, 1000.5, 0}, rng, 32, false, 256);
      c10_config<uint16_t, 1>(P{100, 64, 10, 0.5, 1}, rng, 32, false, 4000);
      c10_config<uint16_t, 2>(P{10, 64, 0, -0.25, 0}, rng, 32, false, 2000);
    }
    return 0;
  }

  if (!strcmp(mode, "c11")) {
    std::vector<uint64_t> small, all, all4, all8;
    for (uint64_t r = 0; r <= 64; r++) small.push_back(r);
    std::vector<uint64_t> few = {0, 1, 2, 3, 5, 8, 15, 16, 17, 31, 32, 33, 64, 100, 255, 256, 1000};
    std::vector<uint64_t> big = {4096};
    if (th) for (uint64_t r = 0; r <= 4096; r++) { all.push_back(r); if (r % 4 == 1 || r <= 64) all4.push_back(r); if (r % 8 == 3 || r <= 64) all8.push_back(r); }
    // request lengths 0…64 on every stream kind, for both widths and depths
    c11_config<uint8_t, 1>(P{3.19, 128, 0, 0, 0}, rng, small, 7);
    c11_config<uint8_t, 2>(P{3.19, 128, 0, 0, 0}, rng, small, 7);
    c11_config<uint16_t, 1>(P{3.19, 128, 0, 0, 0}, rng, small, 7);
    c11_config<uint16_t, 2>(P{0.3, 32, 0, 0.5, 0}, rng, small, 7);
    c11_config<uint8_t, 2>(P{3.19, 128, 0, 0, 0}, rng, big, 7);
    c11_config<uint8_t, 1>(P{3.19, 128, 0, 0, 0}, rng, big, 3);
    c11_config<uint16_t, 2>(P{3.19, 128, 0, 0, 0}, rng, big, 3);
    c11_config<uint8_t, 2>(P{0.3, 256, 20, 0.5, 1}, rng, few, 2);      // longest comparisons relative to the table (lambda 256)
    c11_config<uint8_t, 1>(P{10, 256, 0, 1000.5, 0}, rng, few, 2);
    c11_config<uint8_t, 2>(P{100, 64, 10, -0.25, 0}, rng, few, 1);
    c11_config<uint16_t, 1>(P{10, 32, 0, 0, 1}, rng, few, 1);
    if (th) {
      c11_config<uint8_t, 2>(P{3.19, 128, 0, 0, 0}, rng, all, 1);
      c11_config<uint8_t, 1>(P{1, 64, 10, 0.5, 0}, rng, all4, 1);
      c11_config<uint16_t, 1>(P{3.19, 128, 0, 0, 0}, rng, all4, 1);
      c11_config<uint16_t, 2>(P{1, 32, 0, 0, 0}, rng, all8, 1);
      c11_config<uint8_t, 2>(P{300, 256, 20, 1000.5, 0}, rng, few, 2);
    }
    // construction / sampling / destruction over the parameter grid (leaks are reported by LSan at exit)
    for (double s : SIGMAS) for (unsigned l : LAMS) for (unsigned lm : LOG2MS) for (double c : CENTRES) {
      bool inq = (lm == 0 || lm == 20) && c != -0.25 && !(s == 300 && l != 256);
      if (!th && !inq) continue;
      P p{s, l, lm, c, (int)rng.below(2)};
      life_one<uint8_t, 1>(p, rng);
      life_one<uint8_t, 2>(p, rng);
      life_one<uint16_t, 1>(p, rng);
      if (s <= (th ? 10 : 1)) life_one<uint16_t, 2>(p, rng);   // one 2 MB row per flagged first-level cell
    }
    return 0;
  }
  fprintf(stderr, "unknown mode %s\n", mode);
  return 2;
}
