// C10/C11 harness: FastGaussianNoise<in_class, out_class, depth> driven through a scripted nfl::fastrandombytes.
// The same source is compiled four times (-DGAUSS_OSET=0/1/2/3, in parallel): set 0 = out_class int32_t (all streams, TV search,
// lifecycles), set 1 = int64_t / uint64_t, set 2 = uint32_t, set 3 = int16_t / uint16_t (out-type sweeps of the c10 / c11 streams and the
// library's own consumer poly<T,…>::set(gaussian<in_class,T,depth>) for T = uint64_t / uint32_t / uint16_t).
//
// Lines (see lean/Driver/GaussH.lean):
//   gtab  id W depth wp nb rc ob osg <nb*wp barrier words> <n1 items…> <nrows (row nitems items…)…> => 1
//         ob / osg = width in bits and signedness of out_class; the cell values are printed as the integer they denote when the
//         out_class object is read as the signed type of the same width (what core.hpp does with value_type samples)
//         item = 0 cnt val (run of unflagged cells with empty list) | 1 val k idx… (flagged) | 2 val k idx… (unflagged, non-empty list)
//   gdec  id kind u_0 … u_{wp-1} => out                      getNoise(out,1) on the scripted string u; out = the value of the out_class
//                                                            object itself (unsigned types print 2^ob+v for a negative sample v)
//   gpoly id w n nm amp p_0 … p_{nm-1} bufLen kind <nreq*bufLen words> => nreq data_0 … data_{n*nm-1}
//         poly<T,n,nm>::set(gaussian<in_class,T,depth>(sampler id, amp)) on a scripted stream (T = uintw_t = the sampler's out_class)
//   gstep id j => u_0 … u_{wp-1}                             smallest string with output > v0+j, found by bisection on the implementation
//   gn    id rlen bufLen kind <nreq*bufLen words> => nreq lenOK wrOK out_0 … out_{rlen-1}
//   gtv   W lam m sn sd cn cd ctor => ratio_ppm wp nb hypOK bitprec   TV(sampler, D_{Z,sigma,c}) / (2^-lam/m), in 1e-6 units (rounded up)
//   gpar  W lam m sn sd wp nb bitprec => 1                   the derived parameters of a live object (driver: exact-integer consequences of
//                                                            k = lam+1+ceil(log2 m), Lemma 1 / Lemma 2 of the construction)
//   glife W depth lam m sn sd cn cd ctor => nb wp hypOK bitprec   constructor / getNoise / destructor under the sanitizers (one thread)
//   glc   nobj nev (W depth lam m sn sd cn cd ctor)*nobj (op obj thr arg)*nev => resid_blocks resid_bytes hypOK
//         a lifecycle of several samplers over several threads; op 0 construct / 1 getNoise(arg outputs) / 2 destroy / 3 end of thread thr;
//         thr 0 = main, 1..3 = named worker threads (started at first use, ended by op 3 or at the end), 9 = a fresh std::thread that ends
//         right after the event.  resid = heap blocks / bytes allocated inside constructor / getNoise / destructor (on any thread) that are
//         still allocated when every sampler is destroyed and every worker has ended (allocator accounting through the ASan hooks).
// Parameters are exact rationals: sigma = fl(sn/sd), centre = fl(cn/cd) (ctor 0: double constructor, 1: mpfr constructor holding that
// double, 2: mpfr constructor holding cn/cd rounded to 256 bits, i.e. a centre that is not a double); m is the sample budget itself.
// Before every construction / call the parameters are written to stderr ("PARAMS …"): after a sanitizer abort the
// last such line is the concrete failing input.
#include "common.hpp"
#include <gmp.h>
#include <mpfr.h>
#include <functional>
#include <map>
#include <algorithm>
#include <cmath>
#include <atomic>
#include <thread>
#include <mutex>
#include <condition_variable>
#include <memory>
#ifndef GAUSS_OSET
#define GAUSS_OSET 0
#endif
#if GAUSS_OSET != 0
#include "nfl.hpp"
#endif
#include "FastGaussianNoise.hpp"
#include <type_traits>
#include <limits>

using namespace vh;

// ------------------------------------------------------------------------------------------------ allocator accounting
// Every heap block allocated while the calling thread is inside a sampler operation (constructor / getNoise / destructor: `Op` scope)
// is entered in a table, on whatever thread that happens; it leaves the table when it is freed, on whatever thread.  What is left when a
// lifecycle is over (all samplers destroyed, all workers joined) was obtained by the sampler and never released: blocks + bytes are
// reported on the lifecycle's own line, so a leak is attributed to the lifecycle that caused it (LSan at exit stays on as a backstop).
extern "C" {
int __sanitizer_install_malloc_and_free_hooks(void (*)(const volatile void*, size_t), void (*)(const volatile void*)) __attribute__((weak));
}
namespace acct {
struct E { uintptr_t p; size_t n; };                 // p == 0 empty, p == 1 deleted
static const size_t CAP = 1u << 19;
static E tab[CAP];
static std::atomic_flag lk = ATOMIC_FLAG_INIT;
static std::atomic<bool> on{false};
static thread_local volatile int in_op = 0;   // volatile: see `blocks`
static volatile long blocks = 0, bytes = 0, dropped = 0;   // volatile: malloc/free are `leaf` builtins for the compiler, the hooks run inside them
static bool installed = false;
static inline size_t slot(uintptr_t p) { return (size_t)((p >> 3) * 0x9E3779B97F4A7C15ULL >> 45) & (CAP - 1); }
static void on_malloc(const volatile void* ptr, size_t n) {
  if (!on.load(std::memory_order_relaxed) || !in_op || !ptr) return;
  while (lk.test_and_set(std::memory_order_acquire)) {}
  size_t i = slot((uintptr_t)ptr), k = 0;
  for (; k < CAP; k++, i = (i + 1) & (CAP - 1)) if (tab[i].p <= 1) break;
  if (k < CAP) { tab[i].p = (uintptr_t)ptr; tab[i].n = n; blocks = blocks + 1; bytes = bytes + (long)n; } else dropped = dropped + 1;
  lk.clear(std::memory_order_release);
}
static void on_free(const volatile void* ptr) {
  if (!on.load(std::memory_order_relaxed) || !ptr) return;
  while (lk.test_and_set(std::memory_order_acquire)) {}
  size_t i = slot((uintptr_t)ptr);
  for (size_t k = 0; k < CAP && tab[i].p != 0; k++, i = (i + 1) & (CAP - 1))
    if (tab[i].p == (uintptr_t)ptr) { tab[i].p = 1; blocks = blocks - 1; bytes = bytes - (long)tab[i].n; break; }
  lk.clear(std::memory_order_release);
}
static void begin() {
  if (!installed) {
    installed = true;
    if (!__sanitizer_install_malloc_and_free_hooks || !__sanitizer_install_malloc_and_free_hooks(on_malloc, on_free)) {
      fprintf(stderr, "harness error: allocator hooks unavailable (the lifecycle accounting needs the ASan runtime)\n"); exit(4);
    }
    // self-test: a block allocated inside an Op scope and not freed must be seen, and must disappear when freed (on another thread)
    on.store(true);
    void* volatile probe; in_op = 1; probe = malloc(24); in_op = 0;
    long b1 = blocks; std::thread([&] { free(probe); }).join();
    if (b1 != 1 || blocks != 0) { fprintf(stderr, "harness error: allocator accounting self-test failed (%ld, %ld)\n", b1, blocks); exit(4); }
    on.store(false);
  }
  memset(tab, 0, sizeof tab); blocks = bytes = dropped = 0;
  on.store(true);
}
static void end(long& b, long& n) { on.store(false); b = blocks + dropped; n = bytes; }
struct Op { Op() { in_op = in_op + 1; } ~Op() { in_op = in_op - 1; } };          // the calling thread is inside a sampler operation
struct Pause { int s; Pause() : s(in_op) { in_op = 0; } ~Pause() { in_op = s; } };   // … except inside the harness's own callbacks
}  // namespace acct

// ------------------------------------------------------------------------------------------------ scripted randomness
static std::function<void(size_t req, uint8_t* dst, size_t nbytes)> g_fill;
static std::vector<std::vector<uint8_t>> g_reqs;
namespace nfl {
void fastrandombytes(unsigned char* r, unsigned long long n) {
  acct::Pause pause;                 // the harness's own buffers are not the sampler's memory
  std::vector<uint8_t> v(n, 0);
  if (g_fill) g_fill(g_reqs.size(), v.data(), n);
  if (n) memcpy(r, v.data(), n);
  g_reqs.push_back(std::move(v));
}
}  // namespace nfl

static char g_params[8192];
#define PARAMS(...) do { snprintf(g_params, sizeof g_params, __VA_ARGS__); fprintf(stderr, "PARAMS %s\n", g_params); fflush(stderr); } while (0)

static int g_next_id = 1;
// out_class: width, signedness, the integer an out_class object denotes when read as the signed type of its width, a value no sample takes
template <class O> struct OT {
  typedef typename std::make_signed<O>::type S;
  static const int bits = 8 * sizeof(O);
  static const int sg = std::is_signed<O>::value ? 1 : 0;
  static long long sx(O v) { return (long long)(S)v; }
  static O sentinel() { return (O)(S)(std::numeric_limits<S>::min() + 7); }
  static void print(O v) { if (sg) printf(" %lld", (long long)v); else printf(" %llu", (unsigned long long)v); }
};

// sigma = fl(sn/sd), centre = fl(cn/cd); ctor 0: double centre, 1: mpfr centre = that double, 2: mpfr centre = cn/cd at 256 bits
struct P {
  long sn, sd; unsigned lam; unsigned m; long cn, cd; int ctor;
  double sigma() const { return (double)sn / (double)sd; }
  double c() const { return (double)cn / (double)cd; }
};
#define PFMT "sigma=%ld/%ld lambda=%u m=%u centre=%ld/%ld ctor=%d"
#define PARG(p) (p).sn, (p).sd, (p).lam, (p).m, (p).cn, (p).cd, (p).ctor
static void centre_mpfr(mpfr_t c, const P& p);
// constructor 2 is only meant for centres that are NOT doubles; if cn/cd happens to be one it is the same input as constructor 1
static void fix_ctor(P& p) {
  if (p.ctor != 2) return;
  mpfr_t c; mpfr_init2(c, 256); centre_mpfr(c, p);
  if (mpfr_cmp_d(c, p.c()) == 0) p.ctor = 1;
  mpfr_clear(c);
}
static void centre_mpfr(mpfr_t c, const P& p) {      // c already initialised; exact copy of what the constructor receives
  if (p.ctor == 2) { mpfr_set_prec(c, 256); mpfr_set_si(c, p.cn, MPFR_RNDN); mpfr_div_si(c, c, p.cd, MPFR_RNDN); }
  else { mpfr_set_prec(c, 256); mpfr_set_d(c, p.c(), MPFR_RNDN); }
}

template <class T, class O, unsigned D> struct Obj {
  typedef nfl::FastGaussianNoise<T, O, D> FG;
  typedef OT<O> ot;
  FG* g = nullptr;
  P p;
  int id = 0;
  unsigned wp, nb, W;
  std::map<const T*, int> bidx;

  explicit Obj(const P& p_, bool index_barriers = true) : p(p_) {
    W = 1u << (8 * sizeof(T));
    PARAMS("construct W=%u depth=%u out_class=%c%d " PFMT, W, D, ot::sg ? 'i' : 'u', ot::bits, PARG(p));
    if (p.ctor == 0) { acct::Op op; g = new FG(p.sigma(), p.lam, p.m, p.c()); }
    else {
      // an argument passed by pointer (mpfr_t is an array type) stays the CALLER's: same value, precision and limb storage after
      // construction, and again after the sampler is destroyed (checked in ~Obj; under ASan a block the sampler released is caught there)
      mpfr_init2(arg_c, 256); centre_mpfr(arg_c, p);
      mpfr_init2(arg_copy, 256); mpfr_set(arg_copy, arg_c, MPFR_RNDN);
      arg_limbs = (const void*)arg_c->_mpfr_d; has_arg = true;
      { acct::Op op; g = new FG(p.sigma(), p.lam, p.m, arg_c); }
      arg_check(0);
    }
    wp = g->_word_precision; nb = g->_number_of_barriers;
    if (index_barriers) for (unsigned i = 0; i < nb; i++) bidx[g->barriers[i]] = (int)i;
  }
  ~Obj() {
    PARAMS("destroy W=%u depth=%u " PFMT, W, D, PARG(p));
    { acct::Op op; delete g; }
    if (has_arg) { arg_check(1); mpfr_clear(arg_c); mpfr_clear(arg_copy); }
  }
  mpfr_t arg_c, arg_copy; const void* arg_limbs = nullptr; bool has_arg = false;
  // gctorarg W depth ctor when(0 after construction, 1 after destruction) => value_changed precision_changed storage_changed
  void arg_check(int when) {
    int vch = mpfr_equal_p(arg_c, arg_copy) ? 0 : 1;            // NaN compares unequal
    int pch = mpfr_get_prec(arg_c) == 256 ? 0 : 1;
    int sch = (const void*)arg_c->_mpfr_d == arg_limbs ? 0 : 1;
    printf("gctorarg %u %u %d %d => %d %d %d\n", W, D, p.ctor, when, vch, pch, sch);
  }
  void emit_par() {
    printf("gpar %u %u %u %ld %ld %u %u %u => 1\n", W, p.lam, p.m, p.sn, p.sd, wp, nb, g->_bit_precision);
  }

  // hypotheses of the proved part, evaluated on the live barriers: sorted, last barrier starts with two all-ones words
  int hyp_ok() {
    for (unsigned i = 0; i + 1 < nb; i++) if (memcmp_words(g->barriers[i], g->barriers[i + 1]) > 0) return 0;
    const T ones = (T)~(T)0;
    if (wp < 2 || g->barriers[nb - 1][0] != ones || g->barriers[nb - 1][1] != ones) return 0;
    return nb % 2 == 1;
  }
  int memcmp_words(const T* a, const T* b) { for (unsigned k = 0; k < wp; k++) { if (a[k] < b[k]) return -1; if (a[k] > b[k]) return 1; } return 0; }

  // ---- table dump ----
  template <class CellT> void items(const CellT* t, std::vector<long long>& o) {
    size_t nitems = 0, at = o.size();
    o.push_back(0);
    for (unsigned i = 0; i < W;) {
      if (!t[i].flag && t[i].l_b_ptr.empty()) {
        unsigned j = i;
        while (j < W && !t[j].flag && t[j].l_b_ptr.empty() && t[j].val == t[i].val) j++;
        o.push_back(0); o.push_back(j - i); o.push_back(ot::sx((O)t[i].val));
        i = j;
      } else {
        o.push_back(t[i].flag ? 1 : 2); o.push_back(ot::sx((O)t[i].val)); o.push_back((long long)t[i].l_b_ptr.size());
        for (T* ptr : t[i].l_b_ptr) { auto it = bidx.find(ptr); o.push_back(it == bidx.end() ? -1 : it->second); }
        i++;
      }
      nitems++;
    }
    o[at] = (long long)nitems;
  }
  void emit_tab() {
    id = g_next_id++;
    printf("gtab %d %u %u %u %u %d %d %d", id, W, D, wp, nb, g->rounded_center, ot::bits, ot::sg);
    for (unsigned i = 0; i < nb; i++) for (unsigned j = 0; j < wp; j++) printf(" %u", (unsigned)g->barriers[i][j]);
    std::vector<long long> o;
    items(g->lu_table, o);
    if (D == 2) {
      size_t at = o.size(); o.push_back(0); long long rows = 0;
      for (unsigned i = 0; i < W; i++) if (g->lu_table2[i]) { o.push_back(i); items(g->lu_table2[i], o); rows++; }
      o[at] = rows;
    } else o.push_back(0);
    for (long long v : o) printf(" %lld", v);
    printf(" => 1\n");
  }

  // ---- one output on a scripted string ----
  O eval1(const std::vector<T>& u) {
    g_reqs.clear();
    g_fill = [&](size_t req, uint8_t* dst, size_t n) {
      if (req == 0) memcpy(dst, u.data(), std::min(n, u.size() * sizeof(T)));
    };
    O* out = new O[1];
    out[0] = ot::sentinel();
    { acct::Op op; g->getNoise(out, 1); }
    O r = out[0];
    delete[] out;
    return r;
  }
  void emit_dec(int kind, const std::vector<T>& u) {
    O r = eval1(u);
    printf("gdec %d %d", id, kind);
    for (T w : u) printf(" %u", (unsigned)w);
    printf(" =>"); ot::print(r); printf("\n");
  }
  std::vector<T> words_of(const mpz_t z) {
    std::vector<T> u(wp, 0);
    size_t cnt = 0;
    std::vector<T> tmp(wp + 2, 0);
    mpz_export(tmp.data(), &cnt, 1, sizeof(T), 0, 0, z);
    for (size_t i = 0; i < cnt && i < wp; i++) u[wp - cnt + i] = tmp[i];
    return u;
  }
  std::vector<T> barrier(unsigned j) { return std::vector<T>(g->barriers[j], g->barriers[j] + wp); }

  // smallest u with f(u) > v0 + j, by bisection over the strings (every probe also goes to the driver when `emit`)
  void bisect(unsigned j, bool emit) {
    long target = (long)g->rounded_center - ((long)nb - 1) / 2 + j + 1;
    mpz_t lo, hi, mid;
    mpz_inits(lo, hi, mid, nullptr);
    mpz_set_ui(hi, 1); mpz_mul_2exp(hi, hi, wp * 8 * sizeof(T)); mpz_sub_ui(hi, hi, 1);
    printf("gstep %d %u =>", id, j);
    if (ot::sx(eval1(words_of(hi))) < target) { printf(" -1\n"); mpz_clears(lo, hi, mid, nullptr); return; }
    std::vector<std::vector<T>> probes;
    while (mpz_cmp(lo, hi) < 0) {
      mpz_add(mid, lo, hi); mpz_fdiv_q_2exp(mid, mid, 1);
      auto u = words_of(mid);
      if (emit) probes.push_back(u);
      if (ot::sx(eval1(u)) >= target) mpz_set(hi, mid); else { mpz_add_ui(lo, mid, 1); }
    }
    for (T w : words_of(lo)) printf(" %u", (unsigned)w);
    printf("\n");
    for (auto& u : probes) emit_dec(0, u);
    mpz_clears(lo, hi, mid, nullptr);
  }

  // ---- a whole getNoise call on a scripted stream ----
  // kinds: 0 random, 1 all-zero, 2 all-ones, 3 copies of barriers with the last word perturbed, 4 exact barrier copies,
  //        5 random with first words drawn from flagged cells, 6 barrier on a long prefix then random
  //        7 copies of barriers whose output is NEGATIVE, last word -1 / 0 / +1 (flagged cell + negative value by construction;
  //          falls back to kind 3 when the support has no negative value)
  void script(int kind, uint64_t s0) {
    g_reqs.clear();
    long v0 = (long)g->rounded_center - ((long)nb - 1) / 2;           // string == barrier j  =>  output v0 + j + 1
    unsigned nneg = v0 + 1 < 0 ? (unsigned)std::min<long>((long)nb, -v0 - 1) : 0;
    if (kind == 7 && nneg == 0) kind = 3;
    g_fill = [this, s0, kind, nneg](size_t req, uint8_t* dst, size_t n) {
      Rng r(s0 + 77 * req);
      size_t nw = n / sizeof(T);
      std::vector<T> w(nw + 1, 0);
      switch (kind) {
        case 0: for (auto& x : w) x = (T)r.next(); break;
        case 1: break;
        case 2: for (auto& x : w) x = (T)~(T)0; break;
        case 3: case 4: case 6: case 7:
          for (size_t i = 0; i < nw;) {
            unsigned j = (unsigned)r.below(kind == 7 ? nneg : nb);
            size_t keep = kind == 6 ? 1 + r.below(wp) : wp;
            unsigned k = 0;
            for (; k < wp && i < nw; k++, i++) w[i] = k < keep ? g->barriers[j][k] : (T)r.next();
            if ((kind == 3 || kind == 7) && k == wp) w[i - 1] = (T)(w[i - 1] + (int)r.below(3) - 1);   // last word -1 / 0 / +1
          }
          break;
        case 5:
          for (auto& x : w) { x = (T)r.next(); if (r.below(2)) x = g->barriers[r.below(nb)][r.below(2) % wp]; }
          break;
      }
      if (n) memcpy(dst, w.data(), n);
    };
  }
  void print_requests(size_t blen) {
    for (auto& v : g_reqs) for (size_t i = 0; i < blen; i++) {
      T x = 0; if ((i + 1) * sizeof(T) <= v.size()) memcpy(&x, v.data() + i * sizeof(T), sizeof(T));
      printf(" %u", (unsigned)x);
    }
  }
  void run_gn(uint64_t rlen, int kind, Rng& rng) {
    PARAMS("getNoise id=%d W=%u depth=%u out_class=%c%d " PFMT " rlen=%llu stream-kind=%d seed=%llu",
           id, W, D, ot::sg ? 'i' : 'u', ot::bits, PARG(p), (unsigned long long)rlen, kind, (unsigned long long)env_u64("VERIF_SEED", 1));
    script(kind, rng.next());
    O* out = new O[rlen];   // exact size: a write past rlen outputs is a heap overflow for ASan
    for (uint64_t i = 0; i < rlen; i++) out[i] = ot::sentinel();
    { acct::Op op; g->getNoise(out, rlen); }
    size_t nreq = g_reqs.size();
    size_t blen = nreq ? g_reqs[0].size() / sizeof(T) : 0;
    int lenok = nreq >= 1;
    for (auto& v : g_reqs) if (v.size() != blen * sizeof(T)) lenok = 0;
    int wrok = 1;
    for (uint64_t i = 0; i < rlen; i++) if (out[i] == ot::sentinel()) wrok = 0;
    printf("gn %d %llu %zu %d", id, (unsigned long long)rlen, blen, kind);
    print_requests(blen);
    printf(" => %zu %d %d", nreq, lenok, wrok);
    for (uint64_t i = 0; i < rlen; i++) ot::print(out[i]);
    printf("\n");
    delete[] out;
  }

#if GAUSS_OSET != 0
  // ---- the library's own consumer: poly<O,N,NM>::set(gaussian<T,O,D>(sampler, amp)) reads the samples back as signed_value_type ----
  template <size_t N, size_t NM> void run_poly(uint64_t amp, int kind, Rng& rng) {
    typedef nfl::poly<O, N, NM> Pl;
    PARAMS("poly<uint%d_t,%zu,%zu>::set(gaussian) id=%d W=%u depth=%u " PFMT " amplifier=%llu stream-kind=%d seed=%llu",
           ot::bits, N, NM, id, W, D, PARG(p), (unsigned long long)amp, kind, (unsigned long long)env_u64("VERIF_SEED", 1));
    script(kind, rng.next());
    Pl* q = new Pl;
    for (size_t i = 0; i < N * NM; i++) q->_data[i] = (O)0x5A5A5A5A5A5A5A5AULL;
    { acct::Op op; q->set(nfl::gaussian<T, O, D>(g, amp)); }
    size_t nreq = g_reqs.size();
    size_t blen = nreq ? g_reqs[0].size() / sizeof(T) : 0;
    for (auto& v : g_reqs) if (v.size() != blen * sizeof(T)) blen = 0;     // unequal requests: the driver rejects bufLen 0
    printf("gpoly %d %d %zu %zu %llu", id, ot::bits, N, NM, (unsigned long long)amp);
    for (size_t cm = 0; cm < NM; cm++) printf(" %llu", (unsigned long long)Pl::get_modulus(cm));
    printf(" %zu %d", blen, kind);
    print_requests(blen);
    printf(" => %zu", nreq);
    for (size_t i = 0; i < N * NM; i++) printf(" %llu", (unsigned long long)q->_data[i]);
    printf("\n");
    delete q;
    g_fill = nullptr;
  }
#endif

  // ---- getNoise inside a lifecycle (outputs are not reported: C11's gn lines do that; here the accesses are what matters) ----
  void life_sample(uint64_t rlen, int kind, uint64_t seed) {
    PARAMS("getNoise(lifecycle) W=%u depth=%u " PFMT " rlen=%llu stream-kind=%d", W, D, PARG(p), (unsigned long long)rlen, kind);
    Rng r2(seed);
    g_reqs.clear();
    unsigned nb_ = nb, wp_ = wp; FG* g_ = g;
    g_fill = [&r2, nb_, wp_, g_, kind](size_t, uint8_t* dst, size_t n) {
      std::vector<T> w(n / sizeof(T) + 1, 0);
      for (size_t i = 0; i < w.size(); i++) {
        switch (kind) { case 1: break; case 2: w[i] = (T)~(T)0; break; case 0: case 5: w[i] = (T)r2.next(); break;
          default: w[i] = g_->barriers[(i / wp_) % nb_][i % wp_]; }
      }
      if (n) memcpy(dst, w.data(), n);
    };
    O* out = new O[rlen];
    { acct::Op op; g->getNoise(out, rlen); }
    delete[] out;
    g_fill = nullptr;
    g_reqs.clear();
  }
};

// ------------------------------------------------------------------------------------------------ ideal distribution
// rho(x) = exp(-(x-c)^2/(2 sigma^2)) at PREC bits; sum over |x-c| <= R computed term by term, the rest bounded by
// sum_{x >= x0} rho(x) <= rho(x0) (1 + sigma^2/(x0-c))   (terms decrease, integral comparison + Mills' ratio), both sides.
static const mpfr_prec_t PREC = 1536;
struct Ideal {
  long lo, hi;                         // explicit range [lo, hi]
  std::vector<__mpfr_struct> rho;      // rho[x-lo]
  mpfr_t S, tail;                      // S = explicit sum, tail = upper bound of the mass outside [lo,hi] (unnormalised)
};
static void rho_at(mpfr_t r, long x, const mpfr_t c, const mpfr_t inv2s2) {
  mpfr_set_si(r, x, MPFR_RNDN); mpfr_sub(r, r, c, MPFR_RNDN); mpfr_sqr(r, r, MPFR_RNDN); mpfr_mul(r, r, inv2s2, MPFR_RNDN);
  mpfr_neg(r, r, MPFR_RNDN); mpfr_exp(r, r, MPFR_RNDN);
}
static Ideal* ideal_for(const P& p) {
  static auto& cache = *new std::map<std::array<long, 5>, Ideal*>;   // never destroyed: stays reachable for LSan
  std::array<long, 5> key = {p.sn, p.sd, p.cn, p.cd, p.ctor == 2};
  auto it = cache.find(key);
  if (it != cache.end()) return it->second;
  if (cache.size() > 600) {            // bound the memory of long random searches
    for (auto& kv : cache) { for (auto& r : kv.second->rho) mpfr_clear(&r); mpfr_clears(kv.second->S, kv.second->tail, nullptr); delete kv.second; }
    cache.clear();
  }
  const double sigma = p.sigma(), c = p.c();
  Ideal* I = new Ideal;
  // rho < 2^-1000 beyond R = sigma*sqrt(2*1000*ln 2) ~ 37.3 sigma
  long R = (long)ceil(sigma * 37.3) + 2;
  I->lo = (long)floor(c) - R; I->hi = (long)ceil(c) + R;
  mpfr_t cc, s2, t; mpfr_inits2(PREC, cc, s2, t, I->S, I->tail, nullptr);
  { mpfr_t c256; mpfr_init2(c256, 256); centre_mpfr(c256, p); mpfr_set(cc, c256, MPFR_RNDN); mpfr_clear(c256); }   // exact: 256 <= PREC
  mpfr_set_d(s2, sigma, MPFR_RNDN); mpfr_sqr(s2, s2, MPFR_RNDN); mpfr_mul_ui(s2, s2, 2, MPFR_RNDN); mpfr_ui_div(s2, 1, s2, MPFR_RNDN);
  I->rho.resize(I->hi - I->lo + 1);
  mpfr_set_ui(I->S, 0, MPFR_RNDN);
  for (long x = I->lo; x <= I->hi; x++) {
    mpfr_ptr r = &I->rho[x - I->lo]; mpfr_init2(r, PREC); rho_at(r, x, cc, s2); mpfr_add(I->S, I->S, r, MPFR_RNDN);
  }
  // tails: x0 = hi+1 and lo-1
  mpfr_set_ui(I->tail, 0, MPFR_RNDN);
  for (int side = 0; side < 2; side++) {
    long x0 = side ? I->hi + 1 : I->lo - 1;
    mpfr_t r, d; mpfr_inits2(PREC, r, d, nullptr);
    rho_at(r, x0, cc, s2);
    mpfr_set_si(d, x0, MPFR_RNDN); mpfr_sub(d, d, cc, MPFR_RNDN); mpfr_abs(d, d, MPFR_RNDN);   // |x0-c|
    mpfr_set_d(t, sigma, MPFR_RNDN); mpfr_sqr(t, t, MPFR_RNDN); mpfr_div(t, t, d, MPFR_RNDU); mpfr_add_ui(t, t, 1, MPFR_RNDU);
    mpfr_mul(r, r, t, MPFR_RNDU); mpfr_add(I->tail, I->tail, r, MPFR_RNDU);
    mpfr_clears(r, d, nullptr);
  }
  mpfr_clears(cc, s2, t, nullptr);
  cache[key] = I;
  return I;
}

// TV between the sampler's exact output law (barrier differences over W^wp) and D_{Z,sigma,c}; returns ceil(1e6 * TV_upper / (2^-lam/m))
template <class T, class O, unsigned D> static long long tv_ratio_ppm(Obj<T, O, D>& o) {
  Ideal* I = ideal_for(o.p);
  unsigned wp = o.wp, nb = o.nb;
  long v0 = (long)o.g->rounded_center - ((long)nb - 1) / 2;
  mpfr_t acc, pj, dj, t, scale;
  mpfr_inits2(PREC, acc, pj, dj, t, scale, nullptr);
  mpfr_set_ui(scale, 1, MPFR_RNDN); mpfr_mul_2exp(scale, scale, wp * 8 * sizeof(T), MPFR_RNDN);   // W^wp
  mpz_t prev, cur, diff; mpz_inits(prev, cur, diff, nullptr);
  mpfr_set_ui(acc, 0, MPFR_RNDN);
  // integers inside the sampler's range v0 … v0+nb
  for (unsigned j = 0; j <= nb; j++) {
    if (j < nb) mpz_import(cur, wp, 1, sizeof(T), 0, 0, o.g->barriers[j]);
    else { mpz_set_ui(cur, 1); mpz_mul_2exp(cur, cur, wp * 8 * sizeof(T)); }
    mpz_sub(diff, cur, prev);                        // negative if the barriers are not sorted: |.| below still counts it
    mpz_set(prev, cur);
    mpfr_set_z(pj, diff, MPFR_RNDN); mpfr_div(pj, pj, scale, MPFR_RNDN);
    long x = v0 + (long)j;
    if (x >= I->lo && x <= I->hi) mpfr_div(dj, &I->rho[x - I->lo], I->S, MPFR_RNDN); else mpfr_set_ui(dj, 0, MPFR_RNDN);
    mpfr_sub(t, pj, dj, MPFR_RNDN); mpfr_abs(t, t, MPFR_RNDN); mpfr_add(acc, acc, t, MPFR_RNDU);
  }
  // integers outside it (explicit part), then the analytic tail bound
  for (long x = I->lo; x <= I->hi; x++) {
    if (x >= v0 && x <= v0 + (long)nb) continue;
    mpfr_div(dj, &I->rho[x - I->lo], I->S, MPFR_RNDU); mpfr_add(acc, acc, dj, MPFR_RNDU);
  }
  mpfr_div(t, I->tail, I->S, MPFR_RNDU); mpfr_mul_ui(t, t, 3, MPFR_RNDU); mpfr_add(acc, acc, t, MPFR_RNDU);  // tail mass + normalisation slack
  mpfr_div_2ui(acc, acc, 1, MPFR_RNDU);             // the 1/2
  // ratio to 2^-lam / m
  mpfr_mul_2ui(acc, acc, o.p.lam, MPFR_RNDU);
  mpfr_mul_ui(acc, acc, o.p.m, MPFR_RNDU);
  mpfr_mul_ui(acc, acc, 1000000, MPFR_RNDU);
  mpfr_ceil(acc, acc);
  long long r = mpfr_cmp_d(acc, 9e18) > 0 ? (long long)9e18 : (long long)mpfr_get_d(acc, MPFR_RNDU);
  mpfr_clears(acc, pj, dj, t, scale, nullptr);
  mpz_clears(prev, cur, diff, nullptr);
  return r;
}

// ------------------------------------------------------------------------------------------------ streams
template <class T, unsigned D, class O = int32_t> static void c10_config(const P& p, Rng& rng, unsigned max_bisect, bool emit_probes, unsigned cell_budget) {
  Obj<T, O, D> o(p);
  o.emit_tab();
  o.emit_par();
  unsigned wp = o.wp, nb = o.nb, W = o.W;
  const T ones = (T)~(T)0;
  // (1) the implementation's step function, recovered by bisection
  std::vector<unsigned> js;
  if (nb <= max_bisect) for (unsigned j = 0; j < nb; j++) js.push_back(j);
  else {
    for (unsigned j = 0; j < max_bisect / 4; j++) { js.push_back(j); js.push_back(nb - 1 - j); }
    js.push_back(nb / 2); js.push_back(nb / 2 - 1); js.push_back(nb / 2 + 1);
    while (js.size() < max_bisect) js.push_back((unsigned)rng.below(nb));
  }
  for (unsigned j : js) o.bisect(j, emit_probes);
  // (2) each barrier, its predecessor and successor string
  for (unsigned j : js) {
    mpz_t z; mpz_init(z); mpz_import(z, wp, 1, sizeof(T), 0, 0, o.g->barriers[j]);
    o.emit_dec(3, o.words_of(z));
    if (mpz_sgn(z) > 0) { mpz_sub_ui(z, z, 1); o.emit_dec(3, o.words_of(z)); mpz_add_ui(z, z, 1); }
    mpz_add_ui(z, z, 1); if (mpz_sizeinbase(z, 2) <= wp * 8 * sizeof(T)) o.emit_dec(3, o.words_of(z));
    mpz_clear(z);
  }
  // (3) first-level cell boundaries: c 00…0 and c FF…F for every cell (sampled when the budget is smaller than W)
  std::vector<unsigned> cells;
  if (W <= cell_budget) for (unsigned c = 0; c < W; c++) cells.push_back(c);
  else {
    for (unsigned c = 0; c < W; c++) if (o.g->lu_table[c].flag) for (int d = -1; d <= 1; d++) if ((long)c + d >= 0 && c + d < W) cells.push_back(c + d);
    cells.push_back(0); cells.push_back(W - 1);
    while (cells.size() < cell_budget) cells.push_back((unsigned)rng.below(W));
  }
  for (unsigned c : cells) {
    std::vector<T> u(wp, 0); u[0] = (T)c; o.emit_dec(1, u);
    std::fill(u.begin() + 1, u.end(), ones); o.emit_dec(1, u);
  }
  // (4) second-level cell boundaries under every flagged first-level cell
  if (D == 2) {
    std::vector<unsigned> rows;
    for (unsigned c = 0; c < W; c++) if (o.g->lu_table[c].flag) rows.push_back(c);
    size_t per_row = std::max<size_t>(8, (size_t)cell_budget * 4 / std::max<size_t>(1, rows.size()));
    for (unsigned c1 : rows) {
      std::vector<unsigned> c2s;
      if (W <= per_row) for (unsigned c = 0; c < W; c++) c2s.push_back(c);
      else {
        if (o.g->lu_table2[c1]) for (unsigned c = 0; c < W; c++) if (o.g->lu_table2[c1][c].flag) for (int d = -1; d <= 1; d++) if ((long)c + d >= 0 && c + d < W) c2s.push_back(c + d);
        c2s.push_back(0); c2s.push_back(W - 1);
        while (c2s.size() < per_row) c2s.push_back((unsigned)rng.below(W));
      }
      for (unsigned c2 : c2s) {
        std::vector<T> u(wp, 0); u[0] = (T)c1; u[1] = (T)c2; o.emit_dec(2, u);
        std::fill(u.begin() + 2, u.end(), ones); o.emit_dec(2, u);
      }
    }
  }
  // (6) FLAGGED final-level cells whose tabulated value is NEGATIVE, by construction (the walk over the cell's barrier list starts from a
  //     negative out_class value): both ends of the cell, and the first / last barrier of its list with its predecessor and successor
  {
    struct FC { unsigned c1, c2; const std::list<T*>* l; };
    std::vector<FC> fcs;
    for (unsigned c = 0; c < W; c++) {
      if (!o.g->lu_table[c].flag) continue;
      if (D == 1) { if (Obj<T, O, D>::ot::sx((O)o.g->lu_table[c].val) < 0) fcs.push_back({c, 0, &o.g->lu_table[c].l_b_ptr}); }
      else if (o.g->lu_table2[c]) for (unsigned c2 = 0; c2 < W; c2++)
        if (o.g->lu_table2[c][c2].flag && Obj<T, O, D>::ot::sx((O)o.g->lu_table2[c][c2].val) < 0) fcs.push_back({c, c2, &o.g->lu_table2[c][c2].l_b_ptr});
    }
    size_t budget = thorough() ? 400 : 40, stride = std::max<size_t>(1, (fcs.size() + budget - 1) / budget), off = fcs.empty() ? 0 : rng.below(stride);
    for (size_t k = off; k < fcs.size(); k += stride) {
      std::vector<T> u(wp, 0); u[0] = (T)fcs[k].c1; if (D == 2) u[1] = (T)fcs[k].c2;
      o.emit_dec(5, u);
      std::fill(u.begin() + D, u.end(), ones); o.emit_dec(5, u);
      const T* ends[2] = {fcs[k].l->front(), fcs[k].l->back()};
      for (int e = 0; e < (fcs[k].l->size() > 1 ? 2 : 1); e++) {
        mpz_t z; mpz_init(z); mpz_import(z, wp, 1, sizeof(T), 0, 0, ends[e]);
        o.emit_dec(5, o.words_of(z));
        if (mpz_sgn(z) > 0) { mpz_sub_ui(z, z, 1); o.emit_dec(5, o.words_of(z)); mpz_add_ui(z, z, 1); }
        mpz_add_ui(z, z, 1); if (mpz_sizeinbase(z, 2) <= wp * 8 * sizeof(T)) o.emit_dec(5, o.words_of(z));
        mpz_clear(z);
      }
    }
  }
  // (5) random strings, all-zero, all-ones
  for (int i = 0; i < 200; i++) { std::vector<T> u(wp); for (auto& x : u) x = (T)rng.next(); o.emit_dec(4, u); }
  o.emit_dec(4, std::vector<T>(wp, 0));
  o.emit_dec(4, std::vector<T>(wp, ones));
}

template <class T, unsigned D, class O = int32_t> static void c11_config(const P& p, Rng& rng, const std::vector<uint64_t>& rlens, int nkinds_per_len, int nkinds = 7) {
  Obj<T, O, D> o(p);
  o.emit_tab();
  int k = 0;
  for (uint64_t rlen : rlens)
    for (int i = 0; i < nkinds_per_len; i++) o.run_gn(rlen, (k++) % nkinds, rng);
}

template <class T, unsigned D> static void tv_one(const P& p) {
  Obj<T, int32_t, D> o(p);
  long long r = tv_ratio_ppm(o);
  printf("gtv %u %u %u %ld %ld %ld %ld %d => %lld %u %u %d %u\n", o.W, p.lam, p.m, p.sn, p.sd, p.cn, p.cd, p.ctor, r, o.wp, o.nb, o.hyp_ok(), o.g->_bit_precision);
  o.emit_par();
}

template <class T, unsigned D> static void life_one(const P& p, Rng& rng) {
  Obj<T, int32_t, D>* o = new Obj<T, int32_t, D>(p);
  static const uint64_t lens[] = {0, 1, 2, 3, 7, 33};
  for (int i = 0; i < 2; i++) {
    uint64_t rlen = lens[rng.below(6)];
    int kind = (int)rng.below(7);
    o->life_sample(rlen, kind, rng.next());
  }
  printf("glife %u %u %u %u %ld %ld %ld %ld %d => %u %u %d %u\n", o->W, D, p.lam, p.m, p.sn, p.sd, p.cn, p.cd, p.ctor, o->nb, o->wp, o->hyp_ok(), o->g->_bit_precision);
  o->emit_par();
  delete o;
}

// ------------------------------------------------------------------------------------------------ parameter space
// The grid of the property's statement (round values) …
static const long SIGMAS[][2] = {{3, 10}, {1, 1}, {319, 100}, {10, 1}, {100, 1}, {300, 1}};
static const unsigned LAMS[] = {32, 64, 128, 256};
static const unsigned M_POW2[] = {1, 1u << 10, 1u << 20};
static const long CENTRES[][2] = {{0, 1}, {1, 2}, {-1, 4}, {2001, 2}};
// … and the same space off the round values: sample budgets that are not powers of two (neighbours of powers of two, powers of ten, odd
// multiples of powers of two, odd numbers), sigmas / lambdas / centres that are not "nice" (lambda not a multiple of 8, centres with a
// denominator that is not a power of two, i.e. rounded both by the double and by the 256-bit mpfr constructor)
static const unsigned M_NP[] = {3, 1000, 1023, 1025, 10000, 12345, 65535, 65537, 100000, 1000000, (1u << 20) - 1, (1u << 19) + 1,
                                999999, 3u << 18, 777, 524287, 5, 1000001, 7u << 16, 33};
static const size_t N_M_NP = sizeof M_NP / sizeof M_NP[0];
static const long SIGMAS_OFF[][2] = {{37, 100}, {17, 10}, {451, 100}, {1337, 100}, {777, 10}, {2 * 113, 1}};
static const unsigned LAMS_OFF[] = {33, 47, 100, 129, 255};
static const long CENTRES_OFF[][2] = {{1, 3}, {-2, 7}, {1000001, 1000}, {-12345678, 1000}, {499999, 1000000}};

static unsigned pick_m(Rng& rng) {
  unsigned m;
  switch (rng.below(7)) {
    case 0: m = 1u << rng.below(21); break;                                             // power of two
    case 1: { unsigned j = 2 + (unsigned)rng.below(19); m = (1u << j) + (rng.below(2) ? 1 : -1); break; }   // neighbour of a power of two
    case 2: { m = 1; for (unsigned k = rng.below(7); k; k--) m *= 10; break; }         // power of ten
    case 3: m = 1 + (unsigned)rng.below(1u << 20); break;                              // anything
    case 4: m = (unsigned)(2 * rng.below(8) + 3) << rng.below(17); break;              // odd multiple of a power of two
    case 5: m = M_NP[rng.below(N_M_NP)]; break;
    default: m = 1 + (unsigned)rng.below(40); break;                                   // small
  }
  if (m > (1u << 20)) m = (1u << 20) - (unsigned)rng.below(1000);
  return m ? m : 1;
}
static P rand_params(Rng& rng, double smax) {
  P p;
  double s = 0.3 * exp((double)rng.below(1000001) / 1e6 * log(smax / 0.3));           // log-uniform in [0.3, smax]
  switch (rng.below(3)) { case 0: p.sn = lround(s * 1e6); p.sd = 1000000; break; case 1: p.sn = std::max(3L, lround(s * 10)); p.sd = 10; break;
    default: p.sn = std::max(1L, lround(s * 3)); p.sd = 3; }
  if (p.sn * 10 < p.sd * 3) p.sn = (p.sd * 3 + 9) / 10;
  p.lam = 32 + (unsigned)rng.below(225);
  p.m = pick_m(rng);
  switch (rng.below(7)) {
    case 0: p.cn = 2 * ((long)rng.below(2001) - 1000) + 1; p.cd = 2; break;              // half-integers
    case 1: p.cn = (long)rng.below(2000001) - 1000000; p.cd = 1000; break;               // thousandths
    case 2: p.cn = (long)rng.below(1001) - 500; p.cd = 1000; break;                      // near 0
    case 3: p.cn = (long)rng.below(200001) - 100000; p.cd = 1; break;                    // integers, large offsets
    case 4: { static const long dens[] = {3, 7, 11, 13, 1000003}; p.cd = dens[rng.below(5)]; p.cn = (long)rng.below(4000 * p.cd + 1) - 2000 * p.cd; break; }
    case 5: p.cn = (long)rng.below(8001) - 4000; p.cd = 4; break;                        // quarters
    default: p.cd = 1L << (10 + rng.below(40)); p.cn = (long)(rng.next() % (uint64_t)(64 * p.cd)) - 32 * p.cd; break;   // dyadic with many fraction bits
  }
  p.ctor = rng.below(8) == 0 ? 2 : (int)rng.below(2);
  fix_ctor(p);
  return p;
}

// ------------------------------------------------------------------------------------------------ lifecycles over threads
struct Life {
  unsigned W = 0, depth = 0, nb = 0, wp = 0;
  int hyp = 0;
  virtual ~Life() {}
  virtual void sample(uint64_t rlen, int kind, uint64_t seed) = 0;
};
template <class T, unsigned D> struct LifeT : Life {
  Obj<T, int32_t, D> o;
  explicit LifeT(const P& p) : o(p, false) { W = o.W; depth = D; nb = o.nb; wp = o.wp; hyp = o.hyp_ok(); }
  void sample(uint64_t rlen, int kind, uint64_t seed) override { o.life_sample(rlen, kind, seed); }
};
struct Spec { unsigned W, depth; P p; };
static Life* make_life(const Spec& s) {
  if (s.W == 256) return s.depth == 1 ? (Life*)new LifeT<uint8_t, 1>(s.p) : (Life*)new LifeT<uint8_t, 2>(s.p);
  return s.depth == 1 ? (Life*)new LifeT<uint16_t, 1>(s.p) : (Life*)new LifeT<uint16_t, 2>(s.p);
}
// a named worker thread: runs one job at a time, handed over and awaited by the main thread (the lifecycle is sequential: C11 is about
// which thread allocates and which one releases, not about races — those are C17/C18)
struct Worker {
  std::mutex mu; std::condition_variable cv; std::function<void()> job; bool has = false, done = false, quit = false;
  std::thread th;
  Worker() : th([this] { loop(); }) {}
  void loop() {
    std::unique_lock<std::mutex> l(mu);
    for (;;) {
      cv.wait(l, [&] { return has || quit; });
      if (has) { has = false; l.unlock(); job(); l.lock(); done = true; cv.notify_all(); }
      else return;
    }
  }
  void run(const std::function<void()>& j) { std::unique_lock<std::mutex> l(mu); job = j; has = true; done = false; cv.notify_all(); cv.wait(l, [&] { return done; }); }
  void stop() { { std::lock_guard<std::mutex> l(mu); quit = true; } cv.notify_all(); th.join(); }
};
struct Ev { int op, obj, thr; uint64_t arg; };
static std::string g_first_leak;

static void run_lifecycle(const std::vector<Spec>& objs, const std::vector<Ev>& evs, uint64_t seed) {
  std::string lhs = "glc " + std::to_string(objs.size()) + " " + std::to_string(evs.size());
  char buf[256];
  for (auto& s : objs) { snprintf(buf, sizeof buf, " %u %u %u %u %ld %ld %ld %ld %d", s.W, s.depth, s.p.lam, s.p.m, s.p.sn, s.p.sd, s.p.cn, s.p.cd, s.p.ctor); lhs += buf; }
  for (auto& e : evs) { snprintf(buf, sizeof buf, " %d %d %d %llu", e.op, e.obj, e.thr, (unsigned long long)e.arg); lhs += buf; }
  PARAMS("lifecycle begins: %s", lhs.c_str());
  std::vector<Life*> live(objs.size(), nullptr);
  std::unique_ptr<Worker> workers[4];
  int hyp = 1;
  acct::begin();
  for (size_t i = 0; i < evs.size(); i++) {
    const Ev e = evs[i];
    if (e.op == 3) { if (e.thr >= 1 && e.thr <= 3 && workers[e.thr]) { workers[e.thr]->stop(); workers[e.thr].reset(); } continue; }
    std::function<void()> act = [&live, &objs, &hyp, e, seed, i] {
      switch (e.op) {
        case 0: live[e.obj] = make_life(objs[e.obj]); hyp &= live[e.obj]->hyp; break;
        case 1: live[e.obj]->sample(e.arg, (int)(e.arg % 7), seed + 31 * i); break;
        default: delete live[e.obj]; live[e.obj] = nullptr;
      }
    };
    if (e.thr == 0) act();
    else if (e.thr == 9) { std::thread t(act); t.join(); }
    else { if (!workers[e.thr]) workers[e.thr].reset(new Worker); workers[e.thr]->run(act); }
  }
  for (auto& w : workers) if (w) { w->stop(); w.reset(); }
  long rb = 0, rby = 0;
  acct::end(rb, rby);
  for (Life* l : live) if (l) { fprintf(stderr, "harness error: lifecycle leaves a sampler alive\n"); exit(3); }
  printf("%s => %ld %ld %d\n", lhs.c_str(), rb, rby, hyp);
  if (rb && g_first_leak.empty()) g_first_leak = lhs;
  PARAMS("lifecycle over (%ld blocks / %ld bytes obtained inside constructor / getNoise / destructor are still allocated): %s", rb, rby, lhs.c_str());
}

static const uint64_t LIFE_LENS[] = {0, 1, 2, 3, 7, 33, 100};
static uint64_t life_len(Rng& rng) { return LIFE_LENS[rng.below(7)]; }
static Spec rand_spec(Rng& rng, bool allow_big) {
  Spec s;
  s.p = rand_params(rng, allow_big ? 60.0 : 12.0);
  switch (rng.below(allow_big ? 8 : 7)) { case 0: case 1: case 2: s.W = 256; s.depth = 1; break; case 3: case 4: s.W = 256; s.depth = 2; break;
    case 5: case 6: s.W = 65536; s.depth = 1; break; default: s.W = 65536; s.depth = 2; }
  if (s.W == 65536 && s.depth == 2 && s.p.sn > 4 * s.p.sd) { s.p.sn = 3 + (long)rng.below(30); s.p.sd = 10; }   // one 2 MB row per flagged first-level cell
  return s;
}
static int rand_thr(Rng& rng) { static const int t[] = {0, 0, 9, 9, 1, 2, 3}; return t[rng.below(7)]; }

// (A) one sampler, every assignment of constructor / getNoise / destructor to {main, fresh thread, worker 1, worker 2}; when the
//     constructing thread is a worker it ends either before the destruction or after it
static void lifecycles_single(Rng& rng, bool th) {
  static const int T[] = {0, 9, 1, 2};
  int k = 0;
  for (int tc : T) for (int ts : T) for (int td : T) for (int early = 0; early < 2; early++) {
    if (early && !(tc == 1 || tc == 2)) continue;
    if (!th && early && ts != tc && k % 2) { k++; continue; }
    Spec s;
    static const Spec base[] = {
      {256, 2, {319, 100, 128, 1000, 0, 1, 0}}, {256, 1, {17, 10, 47, 12345, 1, 3, 2}}, {65536, 1, {451, 100, 100, 1000000, -2, 7, 1}},
      {256, 2, {10, 1, 255, (1u << 20) - 1, 2001, 2, 0}}, {65536, 2, {3, 10, 33, 3, 1, 2, 0}}, {256, 1, {1, 1, 64, 1u << 10, -1, 4, 1}}};
    s = base[k++ % 6];
    std::vector<Ev> evs;
    evs.push_back({0, 0, tc, 0});
    evs.push_back({1, 0, ts, life_len(rng)});
    if (early) evs.push_back({3, 0, tc, 0});
    evs.push_back({1, 0, ts == tc && early ? 0 : ts, life_len(rng)});
    evs.push_back({2, 0, td == tc && early ? 0 : td, 0});
    run_lifecycle({s}, evs, rng.next());
  }
}
// (B) several samplers alive at once: all constructed (threads drawn per sampler), sampled in turn, destroyed in FIFO / LIFO / random
//     order, destruction thread = construction thread, main, a fresh thread, or another worker; workers may end between the phases
static void lifecycles_multi(Rng& rng, int count, bool allow_big) {
  for (int it = 0; it < count; it++) {
    size_t n = 2 + rng.below(3);
    std::vector<Spec> objs; std::vector<int> tc;
    for (size_t i = 0; i < n; i++) { objs.push_back(i && rng.below(3) == 0 ? objs[rng.below(i)] : rand_spec(rng, allow_big && i == 0)); tc.push_back(rand_thr(rng)); }   // 1 in 3: same type and parameters as an earlier sampler
    std::vector<Ev> evs;
    for (size_t i = 0; i < n; i++) evs.push_back({0, (int)i, tc[i], 0});
    if (rng.below(2)) evs.push_back({3, 0, 1 + (int)rng.below(3), 0});
    for (size_t r = 0; r < 1 + rng.below(2); r++) for (size_t i = 0; i < n; i++) if (rng.below(4)) evs.push_back({1, (int)i, rand_thr(rng), life_len(rng)});
    if (rng.below(2)) evs.push_back({3, 0, 1 + (int)rng.below(3), 0});
    std::vector<int> order;
    for (size_t i = 0; i < n; i++) order.push_back((int)i);
    switch (it % 3) { case 0: break; case 1: std::reverse(order.begin(), order.end()); break;
      default: for (size_t i = n - 1; i > 0; i--) std::swap(order[i], order[rng.below(i + 1)]); }
    for (int o : order) {
      int td; switch (rng.below(4)) { case 0: td = tc[o] == 9 ? 0 : tc[o]; break; case 1: td = 0; break; case 2: td = 9; break; default: td = 1 + (int)rng.below(3); }
      evs.push_back({2, o, td, 0});
    }
    run_lifecycle(objs, evs, rng.next());
  }
}
// (C) random interleavings: per sampler construct, 0..3 getNoise, destroy, merged at random, every event on a random thread, workers
//     ended at random points; a sampler slot may be reused (constructed again after its destruction)
static void lifecycles_random(Rng& rng, int count, bool allow_big) {
  for (int it = 0; it < count; it++) {
    size_t n = 1 + rng.below(4);
    std::vector<Spec> objs;
    for (size_t i = 0; i < n; i++) objs.push_back(i && rng.below(3) == 0 ? objs[rng.below(i)] : rand_spec(rng, allow_big && i == 0));
    std::vector<std::vector<Ev>> per(n);
    for (size_t i = 0; i < n; i++) {
      int rounds = 1 + (rng.below(4) == 0);
      for (int r = 0; r < rounds; r++) {
        per[i].push_back({0, (int)i, rand_thr(rng), 0});
        for (size_t k = rng.below(4); k; k--) per[i].push_back({1, (int)i, rand_thr(rng), life_len(rng)});
        per[i].push_back({2, (int)i, rand_thr(rng), 0});
      }
    }
    std::vector<size_t> at(n, 0);
    std::vector<Ev> evs;
    for (;;) {
      std::vector<size_t> open;
      for (size_t i = 0; i < n; i++) if (at[i] < per[i].size()) open.push_back(i);
      if (open.empty()) break;
      size_t i = open[rng.below(open.size())];
      evs.push_back(per[i][at[i]++]);
      if (rng.below(6) == 0) evs.push_back({3, 0, 1 + (int)rng.below(3), 0});
    }
    run_lifecycle(objs, evs, rng.next());
  }
}

// ------------------------------------------------------------------------------------------------ the out_class dimension
// The library instantiates the sampler with the polynomial's coefficient type (gaussian<in_class, T, depth> with T = uint16_t / uint32_t /
// uint64_t: the samples are written as T and read back as signed_value_type), users pick int64_t / int16_t / …: the same correspondence
// for every out_class the constructor accepts silently (it warns on stdout when nb >= 2^(bits-1): never the case for these parameters;
// the parameters keep every sample inside the signed range of the type, which the driver re-checks on the gtab line).
#if GAUSS_OSET != 0
template <class O> static void fit_centre(P& p) {      // 16-bit outputs: keep centre +- tail inside the type
  if (OT<O>::bits >= 32) return;
  p.cn = p.cn % (8000 * p.cd);
  fix_ctor(p);
}
template <class T, unsigned D, class O, size_t N, size_t NM> static void poly_config(const P& p, Rng& rng, bool th) {
  Obj<T, O, D> o(p);
  o.emit_tab();
  static const uint64_t amps[] = {1, 3, 2};
  for (int rep = 0; rep < (th ? 6 : 1); rep++)
    for (int kind = 0; kind < 8; kind++)
      for (int a = 0; a < (kind == 7 || kind == 3 || th ? 3 : 1); a++) o.template run_poly<N, NM>(amps[a], kind, rng);
}
template <class O> static void c10_out_sweep(Rng& rng, bool th) {
  unsigned mb = th ? 64 : 10;
  c10_config<uint8_t, 1, O>(P{319, 100, 128, 1, 0, 1, 0}, rng, mb, false, 256);
  c10_config<uint8_t, 2, O>(P{20, 1, 128, 1u << 10, 0, 1, 0}, rng, mb, false, th ? 256 : 128);      // the parameters of the LWE example
  c10_config<uint8_t, 2, O>(P{3, 10, 32, 1, -1, 2, 1}, rng, mb, false, 256);
  c10_config<uint16_t, 1, O>(P{10, 1, 64, 1000, -1, 4, 1}, rng, th ? 32 : 6, false, th ? 4000 : 400);
  c10_config<uint16_t, 2, O>(P{1, 1, 64, 3, -2, 7, 1}, rng, th ? 32 : 6, false, th ? 2000 : 300);
  c10_config<uint8_t, 2, O>(P{451, 100, 100, 12345, -12345678, 1000, 0}, rng, mb, false, th ? 256 : 64);   // every sample negative
  for (int i = 0; i < (th ? 8 : 1); i++) {
    P p = rand_params(rng, 20.0);
    fit_centre<O>(p);
    switch (rng.below(3)) {
      case 0: c10_config<uint8_t, 1, O>(p, rng, 8, false, 256); break;
      case 1: c10_config<uint8_t, 2, O>(p, rng, 8, false, 64); break;
      default: c10_config<uint16_t, 1, O>(p, rng, 6, false, 400);
    }
  }
}
template <class O, size_t NM> static void poly_sweep(Rng& rng, bool th) {
  poly_config<uint8_t, 2, O, 16, NM>(P{20, 1, 128, 1u << 10, 0, 1, 0}, rng, th);
  poly_config<uint8_t, 1, O, 8, NM>(P{319, 100, 128, 1, 0, 1, 0}, rng, th);
  poly_config<uint16_t, 1, O, 16, NM>(P{10, 1, 64, 1000, -1, 4, 1}, rng, th);
  poly_config<uint16_t, 2, O, 4, NM>(P{1, 1, 64, 3, -2, 7, 1}, rng, th);
  poly_config<uint8_t, 2, O, 8, NM>(P{451, 100, 100, 12345, -1234567, 1000, 0}, rng, th);                  // every sample negative
}
template <class O> static void c11_out_sweep(Rng& rng, bool th) {
  std::vector<uint64_t> lens = {0, 1, 2, 3, 5, 8, 16, 17, 33, 64, 257};
  if (th) { lens.clear(); for (uint64_t r = 0; r <= 64; r++) lens.push_back(r); lens.push_back(257); lens.push_back(1000); lens.push_back(4096); }
  c11_config<uint8_t, 2, O>(P{20, 1, 128, 1u << 10, 0, 1, 0}, rng, lens, th ? 8 : 4, 8);
  c11_config<uint8_t, 1, O>(P{319, 100, 128, 1, 0, 1, 0}, rng, lens, th ? 8 : 4, 8);
  c11_config<uint16_t, 1, O>(P{10, 1, 64, 1000, -1, 4, 1}, rng, lens, th ? 8 : 2, 8);
  c11_config<uint16_t, 2, O>(P{1, 1, 64, 3, -2, 7, 1}, rng, lens, th ? 8 : 2, 8);
}
#endif

int main(int argc, char** argv) {
  setvbuf(stdout, nullptr, _IOLBF, 0);
  const char* mode = argc > 1 ? argv[1] : "c10";
  uint64_t seed = env_u64("VERIF_SEED", 1);
  Rng rng(seed * 1315423911ULL + (mode[1] == '1' && mode[2] == '1' ? 11 : 10));
  bool th = thorough();

#if GAUSS_OSET == 1
  if (!strcmp(mode, "c10")) { c10_out_sweep<int64_t>(rng, th); c10_out_sweep<uint64_t>(rng, th); poly_sweep<uint64_t, 3>(rng, th); }
  if (!strcmp(mode, "c11")) { c11_out_sweep<int64_t>(rng, th); c11_out_sweep<uint64_t>(rng, th); }
  return 0;
#elif GAUSS_OSET == 2
  if (!strcmp(mode, "c10")) { c10_out_sweep<uint32_t>(rng, th); poly_sweep<uint32_t, 3>(rng, th); }
  if (!strcmp(mode, "c11")) { c11_out_sweep<uint32_t>(rng, th); }
  return 0;
#elif GAUSS_OSET == 3
  if (!strcmp(mode, "c10")) { c10_out_sweep<int16_t>(rng, th); c10_out_sweep<uint16_t>(rng, th); poly_sweep<uint16_t, 2>(rng, th); }
  if (!strcmp(mode, "c11")) { c11_out_sweep<int16_t>(rng, th); c11_out_sweep<uint16_t>(rng, th); }
  return 0;
#endif

  if (!strcmp(mode, "tv")) {
    // (1) the grid of the property, each point with m = 1, 2^10, 2^20 and with two sample budgets that are not powers of two;
    //     quick = sub-grid, thorough = everything
    size_t gi = 0;
    for (auto& s : SIGMAS) for (unsigned l : LAMS) for (auto& c : CENTRES) {
      double sv = (double)s[0] / s[1];
      bool cz = c[0] == 0 || c[0] == 2001;
      for (int k = 0; k < 5; k++) {
        unsigned m = k < 3 ? M_POW2[k] : M_NP[(2 * gi + (k - 3) + seed) % N_M_NP];
        bool inq = k < 3 ? (sv < 100 || (sv == 100 && k != 1) || (l == 128 && k != 1 && cz))
                         : (sv <= 10 || (sv == 100 && k == 3 && (l == 128 || l == 32)) || (l == 128 && k == 3 && c[0] == 0));
        if (!th && !inq) continue;
        P p{s[0], s[1], l, m, c[0], c[1], 0};
        tv_one<uint8_t, 1>(p);
        tv_one<uint16_t, 1>(p);
      }
      gi++;
    }
    // (2) the same space off the round values: sigma, lambda, centre and m all "odd"; all three constructors
    gi = 0;
    for (auto& s : SIGMAS_OFF) for (unsigned l : LAMS_OFF) for (auto& c : CENTRES_OFF) {
      gi++;
      double sv = (double)s[0] / s[1];
      if (!th && !(sv < 20 ? (gi + seed) % 3 == 0 : (gi + seed) % 25 == 0)) continue;
      unsigned m = (gi % 4 == 0) ? M_POW2[(gi / 4) % 3] : M_NP[(gi + 3 * seed) % N_M_NP];
      // constructor 2 (a centre that is not a double) on every 5th point only: see known_findings.json (the mpfr constructor rounds the centre to 53 bits)
      P p{s[0], s[1], l, m, c[0], c[1], gi % 5 == 0 ? 2 : (int)(gi % 2)};
      fix_ctor(p);
      if (gi % 2) tv_one<uint8_t, 1>(p); else tv_one<uint16_t, 1>(p);
    }
    // (3) random draws: sigma log-uniform in [0.3,300] (capped in quick), lambda in [32,256], m in [1,2^20] (powers of two, their
    //     neighbours, powers of ten, odd multiples, arbitrary), centre any rational, constructor double / mpfr(double) / mpfr(256 bit)
    int nr = th ? 600 : 60;
    for (int i = 0; i < nr; i++) {
      P p = rand_params(rng, th ? 300.0 : 40.0);
      if (rng.below(2)) tv_one<uint8_t, 1>(p); else tv_one<uint16_t, 1>(p);
    }
    return 0;
  }

  if (!strcmp(mode, "c10")) {
    unsigned mb = th ? 400 : 48;
    // 8-bit index: all first-level cells, all second-level cells of flagged rows
    c10_config<uint8_t, 1>(P{319, 100, 128, 1, 0, 1, 0}, rng, mb, true, 256);
    c10_config<uint8_t, 2>(P{319, 100, 128, 1000, 0, 1, 0}, rng, mb, true, 256);
    c10_config<uint8_t, 2>(P{3, 10, 32, 1, 1, 2, 0}, rng, mb, true, 256);
    c10_config<uint8_t, 1>(P{10, 1, 64, 1u << 10, -1, 4, 0}, rng, th ? mb : 24, false, 256);
    c10_config<uint8_t, 2>(P{1, 1, 256, 1u << 20, 2001, 2, 1}, rng, th ? mb : 16, false, 256);
    c10_config<uint8_t, 2>(P{100, 1, 128, 1, 0, 1, 0}, rng, th ? 64 : 8, false, 256);
    // 16-bit index
    c10_config<uint16_t, 1>(P{319, 100, 128, 1, 0, 1, 0}, rng, th ? mb : 16, false, th ? 65536 : 1500);
    c10_config<uint16_t, 2>(P{3, 10, 32, 12345, 1, 3, 2}, rng, mb, false, th ? 65536 : 1500);
    c10_config<uint16_t, 2>(P{319, 100, 128, 1, 0, 1, 0}, rng, th ? mb : 8, false, th ? 8192 : 1000);
    // seed-dependent configurations (any sigma, lambda, m, centre, constructor)
    int nr = th ? 12 : 2;
    for (int i = 0; i < nr; i++) {
      P p = rand_params(rng, 20.0);
      double s = p.sigma();
      switch (rng.below(th ? 4 : 3)) {
        case 0: c10_config<uint8_t, 1>(p, rng, 12, false, 256); break;
        case 1: c10_config<uint8_t, 2>(p, rng, 12, false, 256); break;
        case 2: c10_config<uint16_t, 1>(p, rng, 8, false, 1000); break;
        default: if (s <= 4) c10_config<uint16_t, 2>(p, rng, 8, false, 1000); else c10_config<uint8_t, 2>(p, rng, 12, false, 256);
      }
    }
    if (th) {
      c10_config<uint8_t, 1>(P{300, 1, 256, 1u << 20, 2001, 2, 0}, rng, 32, false, 256);
      c10_config<uint8_t, 2>(P{300, 1, 255, 1000000, 1000001, 1000, 2}, rng, 32, false, 256);
      c10_config<uint16_t, 1>(P{100, 1, 64, 1u << 10, 1, 2, 1}, rng, 32, false, 4000);
      c10_config<uint16_t, 2>(P{10, 1, 64, 1, -1, 4, 0}, rng, 32, false, 2000);
    }
    return 0;
  }

  if (!strcmp(mode, "c11")) {
    std::vector<uint64_t> small, all, all4, all8;
    for (uint64_t r = 0; r <= 64; r++) small.push_back(r);
    std::vector<uint64_t> few = {0, 1, 2, 3, 5, 8, 15, 16, 17, 31, 32, 33, 64, 100, 255, 256, 1000};
    std::vector<uint64_t> big = {4096};
    if (th) for (uint64_t r = 0; r <= 4096; r++) { all.push_back(r); if (r % 4 == 1 || r <= 64) all4.push_back(r); if (r % 8 == 3 || r <= 64) all8.push_back(r); }
    // request lengths 0…64 on every stream kind, for both widths and depths
    c11_config<uint8_t, 1>(P{319, 100, 128, 1, 0, 1, 0}, rng, small, 7);
    c11_config<uint8_t, 2>(P{319, 100, 128, 1, 0, 1, 0}, rng, small, 7);
    c11_config<uint16_t, 1>(P{319, 100, 128, 1, 0, 1, 0}, rng, small, 7);
    c11_config<uint16_t, 2>(P{3, 10, 32, 1, 1, 2, 0}, rng, small, 7);
    c11_config<uint8_t, 2>(P{319, 100, 128, 1, 0, 1, 0}, rng, big, 7);
    c11_config<uint8_t, 1>(P{319, 100, 128, 1000, 1, 3, 2}, rng, big, 3);
    c11_config<uint16_t, 2>(P{319, 100, 128, 1, 0, 1, 0}, rng, big, 3);
    c11_config<uint8_t, 2>(P{3, 10, 256, 1u << 20, 1, 2, 1}, rng, few, 2);      // longest comparisons relative to the table (lambda 256)
    c11_config<uint8_t, 1>(P{10, 1, 255, 1000000, 2001, 2, 0}, rng, few, 2);
    c11_config<uint8_t, 2>(P{100, 1, 64, 1u << 10, -1, 4, 0}, rng, few, 1);
    c11_config<uint16_t, 1>(P{10, 1, 33, 3, -2, 7, 1}, rng, few, 1);
    if (th) {
      c11_config<uint8_t, 2>(P{319, 100, 128, 1, 0, 1, 0}, rng, all, 1);
      c11_config<uint8_t, 1>(P{1, 1, 64, 1u << 10, 1, 2, 0}, rng, all4, 1);
      c11_config<uint16_t, 1>(P{319, 100, 128, 1, 0, 1, 0}, rng, all4, 1);
      c11_config<uint16_t, 2>(P{1, 1, 32, 1, 0, 1, 0}, rng, all8, 1);
      c11_config<uint8_t, 2>(P{300, 1, 256, 1u << 20, 2001, 2, 0}, rng, few, 2);
    }
    // construction / sampling / destruction on one thread over the parameter grid; m = 1, 2^20 and a sample budget that is not a power
    // of two (leaks are reported by LSan at exit)
    size_t gi = 0;
    for (auto& s : SIGMAS) for (unsigned l : LAMS) for (int k = 0; k < 4; k++) for (auto& c : CENTRES) {
      double sv = (double)s[0] / s[1];
      gi++;
      unsigned m = k == 0 ? 1 : k == 1 ? 1u << 10 : k == 2 ? 1u << 20 : M_NP[(gi + seed) % N_M_NP];
      bool inq = (k == 0 || k == 2 || (k == 3 && gi % 2 == 0)) && c[0] != -1 && !(sv == 300 && l != 256);
      if (!th && !inq) continue;
      P p{s[0], s[1], l, m, c[0], c[1], (int)rng.below(2)};
      if (k == 3) { p.lam += (unsigned)rng.below(8); p.ctor = (int)rng.below(3); if (rng.below(2)) { p.cn = 3 * p.cn + 1; p.cd = 3 * p.cd; } if (p.lam > 256) p.lam = 255; fix_ctor(p); }
      life_one<uint8_t, 1>(p, rng);
      life_one<uint8_t, 2>(p, rng);
      life_one<uint16_t, 1>(p, rng);
      if (sv <= (th ? 10 : 1)) life_one<uint16_t, 2>(p, rng);   // one 2 MB row per flagged first-level cell
    }
    // lifecycles over threads, several samplers at once, any destruction order (allocator accounting per lifecycle)
    lifecycles_single(rng, th);
    lifecycles_multi(rng, th ? 300 : 30, th);
    lifecycles_random(rng, th ? 500 : 40, th);
    if (!g_first_leak.empty()) PARAMS("first lifecycle that left sampler memory allocated: %s", g_first_leak.c_str());
    return 0;
  }
  fprintf(stderr, "unknown mode %s\n", mode);
  return 2;
}
