// C15 correspondence harness: every coefficient-list setter of nfl::poly / nfl::poly_p, every list length
// 0 … degree*nmoduli+1, boundary values by construction, sentinel-prefilled object on the throwing path.
//
//   setlist   <w> <n> <m> <reduce> <src> <cls> <k> <vals…k> <old…n*m> => <threw> <words…n*m>
//   setscalar <w> <n> <m> <reduce> <src> <cls> <v> <old…n*m>          => <threw> <words…n*m>
//   setmpz    <w> <n> <m> <src> <cls> <k> <vals…k (decimal, any sign/size)> <old…n*m> => <threw> <words…n*m>
//
// cls: 0 = nfl::poly, 1 = nfl::poly_p.   `old` is what the object held before the call (for constructors there
// is no object before the call: on a throwing constructor `old` is echoed — "no object", on success the contents).
// setlist src : 0 set(T const*,T const*,r)  1 set(vector<T>::iterator..)  2 set(initializer_list<T>,r)
//               3 set(array<T,k>::begin/end,r) (k = 0, n, n*m, n*m+1)  4 set(vector<uint64_t>..) (wider / same source type)
//               5 set(vector<uint8_t>..) (narrower source)  6 ctor(T const*,T const*,r)  7 ctor(initializer_list<T>,r)
//               8 operator=(initializer_list<T>) (reduce = true)
// setscalar src: 0 set(v,r)  1 ctor(v,r)  2 operator=(v)  3 default ctor (v = 0)
// setmpz src  : 0 set_mpz(vector<mpz_class>::iterator..)  1 set_mpz(mpz_class const*,..)  2 set_mpz(initializer_list<mpz_class>)
//               3 set_mpz(array<mpz_class,n>)  4 set_mpz(mpz_class)  5 set_mpz(mpz_t)  6 ctor(mpz_class)  7 ctor(mpz_t)
//               8 ctor(initializer_list<mpz_class>)  9 ctor(array<mpz_class,n>)  10 operator=(mpz_class)
//               11 operator=(array<mpz_class,n>)  12 operator=(initializer_list<mpz_class>)  13 operator=(mpz_t)
#include "common.hpp"
#include <nfl.hpp>
#include <memory>
#include <stdexcept>

using namespace vh;

// ---- run-time length -> compile-time length dispatch (initializer lists have static sizes) ----
// type-erased callee so that the dispatch ladder is instantiated once per element type
#include <functional>
static constexpr size_t MAXLEN = 25;  // >= degree*nmoduli + 1 of every configuration below
template <class E> using ILFn = std::function<void(std::initializer_list<E>)>;
template <class E, size_t K> struct Fixed {
  template <size_t... I> static void il(const E* v, ILFn<E> const& f, std::index_sequence<I...>) {
    std::initializer_list<E> l = {v[I]...};
    f(l);
  }
};
template <class E, size_t K = 0> static void with_il(size_t k, const E* v, ILFn<E> const& f) {
  if (k == K) Fixed<E, K>::il(v, f, std::make_index_sequence<K>());
  else if constexpr (K < MAXLEN) with_il<E, K + 1>(k, v, f);
  else abort();
}

template <class T, size_t N, size_t M> struct H {
  using P = nfl::poly<T, N, M>;
  using PP = nfl::poly_p<T, N, M>;
  static constexpr size_t NM = N * M;
  static constexpr int W = 8 * sizeof(T);
  Rng& g;
  explicit H(Rng& r) : g(r) {}

  static T modulus(size_t cm) { return P::get_modulus(cm); }

  std::vector<T> sentinel() {
    std::vector<T> s(NM);
    T base = (T)g.next();
    for (size_t j = 0; j < NM; j++) s[j] = (T)(base ^ (T)(0xA5A5A5A5A5A5A5A5ULL + 0x0101010101010101ULL * j));
    if (g.below(4) == 0) s[g.below(NM)] = (T)~(T)0;
    return s;
  }
  static void fill(P& p, std::vector<T> const& s) { for (size_t j = 0; j < NM; j++) p.begin()[j] = s[j]; }
  static void fill(PP& p, std::vector<T> const& s) { for (size_t j = 0; j < NM; j++) p(j / N, j % N) = s[j]; }
  static void dump(P const& p) { for (size_t j = 0; j < NM; j++) printf(" %llu", (unsigned long long)p.begin()[j]); }
  static void dump(PP const& p) { dump(p.poly_obj()); }
  static void dump(std::vector<T> const& s) { for (T x : s) printf(" %llu", (unsigned long long)x); }

  // boundary values of the property: 0, 1, p-1, p, p+1 (every modulus), 2^w-1, …
  T special(size_t which) {
    size_t cm = g.below(M);
    T p = modulus(cm);
    // general boundary classes of any reduction: k*p + eps for small k (how many subtractions are needed) and
    // 2^b + eps for every bit position b (where a fast path keyed on the operand's size would switch)
    if (which % 10 == 9 && g.below(2)) {
      if (g.below(2)) { T k = (T)(1 + g.below(3)); int e = (int)g.below(5) - 2; return (T)(k * p + (T)e); }
      int b = (int)g.below(W); int e = (int)g.below(3) - 1; return (T)(((T)1 << b) + (T)e);
    }
    switch (which % 10) {
      case 0: return 0;
      case 1: return 1;
      case 2: return (T)(p - 1);
      case 3: return p;
      case 4: return (T)(p + 1);
      case 5: return (T)~(T)0;
      case 6: return (T)(2 * p);
      case 7: return (T)((T)1 << (W - 1));
      case 8: return (T)(3 * p + (T)g.below(p));   // lazy range [3p,4p)
      default: return (T)g.next();
    }
  }
  std::vector<T> values(size_t k, int pat) {
    std::vector<T> v(k);
    for (size_t i = 0; i < k; i++) {
      switch (pat) {
        case 0: v[i] = (g.below(2) ? special(g.below(10)) : (T)g.next()); break;
        case 1: v[i] = (T)~(T)0; break;
        case 2: v[i] = modulus(M - 1); break;
        case 3: v[i] = 0; break;
        case 4: v[i] = (T)(modulus(0) - 1); break;
        default: v[i] = special(i + pat); break;
      }
    }
    return v;
  }

  // ------------------------------------------------------------------------------------------- setlist
  template <class Obj, class Call> void run_on_object(std::vector<T> const& old, Call&& call) {
    Obj p;
    fill(p, old);
    int threw = 0;
    try { call(p); } catch (std::runtime_error const&) { threw = 1; }
    printf(" => %d", threw);
    dump(p);
    printf("\n");
  }
  template <class Obj, class Make> void run_ctor(std::vector<T> const& old, Make&& make) {
    std::unique_ptr<Obj> p;
    int threw = 0;
    try { p.reset(make()); } catch (std::runtime_error const&) { threw = 1; }
    printf(" => %d", threw);
    if (p) dump(*p); else dump(old);
    printf("\n");
  }

  template <class Obj> void setlist(int cls, int src, bool reduce, std::vector<T> const& v) {
    size_t k = v.size();
    std::vector<T> old = sentinel();
    // element types other than T: the values actually handed to the library are printed
    std::vector<uint64_t> wide(v.begin(), v.end());
    if (src == 4 && reduce && W < 64)   // values that do not fit T: reduced in the source type, then stored
      for (auto& x : wide) if (g.below(2)) x |= (g.next() << W);
    std::vector<uint8_t> narrow(k);
    for (size_t i = 0; i < k; i++) narrow[i] = (uint8_t)v[i];
    printf("setlist %d %zu %zu %d %d %d %zu", W, N, M, (int)reduce, src, cls, k);
    if (src == 5) for (auto x : narrow) printf(" %u", (unsigned)x);
    else if (src == 4) for (auto x : wide) printf(" %llu", (unsigned long long)x);
    else dump(v);
    dump(old);
    const T* first = v.data();
    const T* last = v.data() + k;
    switch (src) {
      case 0: run_on_object<Obj>(old, [&](Obj& p) { p.set(first, last, reduce); }); break;
      case 1: { std::vector<T> c(v); run_on_object<Obj>(old, [&](Obj& p) { p.set(c.begin(), c.end(), reduce); }); break; }
      case 2: run_on_object<Obj>(old, [&](Obj& p) {
                ILFn<T> f = [&](std::initializer_list<T> l) { p.set(l, reduce); };
                with_il<T>(k, first, f); }); break;
      case 3: run_on_object<Obj>(old, [&](Obj& p) {
                if (k == N) { std::array<T, N> a; std::copy(first, last, a.begin()); p.set(a.begin(), a.end(), reduce); }
                else if (k == NM) { std::array<T, NM> a; std::copy(first, last, a.begin()); p.set(a.begin(), a.end(), reduce); }
                else if (k == NM + 1) { std::array<T, NM + 1> a; std::copy(first, last, a.begin()); p.set(a.begin(), a.end(), reduce); }
                else { std::array<T, 0> a; p.set(a.begin(), a.end(), reduce); } }); break;
      case 4: run_on_object<Obj>(old, [&](Obj& p) { p.set(wide.begin(), wide.end(), reduce); }); break;
      case 5: run_on_object<Obj>(old, [&](Obj& p) { p.set(narrow.begin(), narrow.end(), reduce); }); break;
      case 6: run_ctor<Obj>(old, [&]() { return new Obj(first, last, reduce); }); break;
      case 7: run_ctor<Obj>(old, [&]() {
                Obj* r = nullptr;
                ILFn<T> f = [&](std::initializer_list<T> l) { r = new Obj(l, reduce); };
                with_il<T>(k, first, f);
                return r; }); break;
      case 8: run_on_object<Obj>(old, [&](Obj& p) {
                ILFn<T> f = [&](std::initializer_list<T> l) { p = l; };
                with_il<T>(k, first, f); }); break;
    }
  }

  template <class Obj> void all_setlist(int cls) {
    int npat0 = thorough() ? 8 : 3;
    for (size_t k = 0; k <= NM + 1; k++)
      for (int src = 0; src <= 8; src++)
        for (int reduce = 0; reduce <= 1; reduce++) {
          if (src == 8 && !reduce) continue;
          if (src == 3 && !(k == 0 || k == N || k == NM || k == NM + 1)) continue;
          int npat = (src == 0 && cls == 0) ? 5 + npat0 : (thorough() ? 3 : 2);
          for (int pi = 0; pi < npat; pi++) {
            int pat = (src == 0 && cls == 0) ? (pi < 5 ? pi : 0) : (pi == 0 ? 0 : 5 + (int)g.below(5));
            setlist<Obj>(cls, src, reduce, values(k, pat));
          }
        }
  }

  // ------------------------------------------------------------------------------------------- setscalar
  template <class Obj> void setscalar(int cls, int src, bool reduce, T v) {
    std::vector<T> old = sentinel();
    printf("setscalar %d %zu %zu %d %d %d %llu", W, N, M, (int)reduce, src, cls, (unsigned long long)v);
    dump(old);
    switch (src) {
      case 0: run_on_object<Obj>(old, [&](Obj& p) { p.set(v, reduce); }); break;
      case 1: run_ctor<Obj>(old, [&]() { return new Obj(v, reduce); }); break;
      case 2: run_on_object<Obj>(old, [&](Obj& p) { p = v; }); break;
      case 3: run_ctor<Obj>(old, [&]() { return new Obj(); }); break;
    }
  }
  template <class Obj> void all_setscalar(int cls) {
    std::vector<T> vs = {0, 1, 2, (T)~(T)0, (T)((T)1 << (W - 1))};
    for (size_t cm = 0; cm < M; cm++) { T p = modulus(cm); vs.push_back((T)(p - 1)); vs.push_back(p); vs.push_back((T)(p + 1)); vs.push_back((T)(2 * p)); }
    for (int i = 0; i < (thorough() ? 40 : 6); i++) vs.push_back((T)g.next());
    for (T v : vs)
      for (int src = 0; src <= 3; src++)
        for (int reduce = 0; reduce <= 1; reduce++) {
          if ((src == 2 || src == 3) && !reduce) continue;
          if (src == 3 && v != 0) continue;
          setscalar<Obj>(cls, src, reduce, v);
        }
  }

  // ------------------------------------------------------------------------------------------- setmpz
  mpz_class big_random(size_t bits) {
    mpz_class z = 0;
    for (size_t b = 0; b < bits; b += 64) { z <<= 64; z += of_u64(g.next()); }
    mpz_class mask = (mpz_class(1) << bits) - 1;
    z &= mask;
    return z;
  }
  static mpz_class of_u64(uint64_t x) { mpz_class z; mpz_import(z.get_mpz_t(), 1, 1, 8, 0, 0, &x); return z; }
  mpz_class special_mpz(size_t which) {
    size_t cm = g.below(M);
    mpz_class p = of_u64(modulus(cm));
    mpz_class W2 = mpz_class(1) << W;
    mpz_class r;
    // general boundary classes: k*p + eps for small k, and 2^b + eps for every bit length b up to two machine words
    // (values just above/below the limb, the modulus size, unsigned long, …), both signs
    if (which % 16 >= 12 && g.below(3) == 0) {
      if (g.below(2)) { r = p * (long)(1 + g.below(4)) + ((long)g.below(5) - 2); }
      else { r = (mpz_class(1) << (unsigned long)g.below(131)) + ((long)g.below(3) - 1); }
      if (g.below(3) == 0) r = -r;
      return r;
    }
    switch (which % 16) {
      case 0: r = 0; break;
      case 1: r = 1; break;
      case 2: r = -1; break;
      case 3: r = p - 1; break;
      case 4: r = p; break;
      case 5: r = p + 1; break;
      case 6: r = -p; break;
      case 7: r = -p - 1; break;
      case 8: r = 1 - p; break;
      case 9: r = W2 - 1; break;
      case 10: r = (mpz_class(1) << 64) - (long)g.below(3) + 1; break;         // around the unsigned-long boundary
      case 11: r = -((mpz_class(1) << 64) - (long)g.below(3) + 1); break;
      case 12: r = big_random(100 + g.below(500)); break;                        // multi-hundred-bit
      case 13: r = -big_random(100 + g.below(500)); break;
      case 14: r = -(p * big_random(200)); break;                                // negative multiple of p: residue 0, not p
      default: r = of_u64(g.next()); if (g.below(2)) r = -r; break;
    }
    return r;
  }
  std::vector<mpz_class> mpz_values(size_t k, int pat) {
    std::vector<mpz_class> v(k);
    for (size_t i = 0; i < k; i++) v[i] = (pat == 0) ? special_mpz(g.below(16)) : special_mpz(i + pat);
    return v;
  }

  template <class Obj> void setmpz(int cls, int src, std::vector<mpz_class> const& v) {
    size_t k = v.size();
    std::vector<T> old = sentinel();
    printf("setmpz %d %zu %zu %d %d %zu", W, N, M, src, cls, k);
    for (auto const& z : v) printf(" %s", z.get_str().c_str());
    dump(old);
    const mpz_class* first = v.data();
    const mpz_class* last = v.data() + k;
    switch (src) {
      case 0: { std::vector<mpz_class> c(v); run_on_object<Obj>(old, [&](Obj& p) { p.set_mpz(c.begin(), c.end()); }); break; }
      case 1: run_on_object<Obj>(old, [&](Obj& p) { p.set_mpz(first, last); }); break;
      case 2: run_on_object<Obj>(old, [&](Obj& p) {
                ILFn<mpz_class> f = [&](std::initializer_list<mpz_class> l) { p.set_mpz(l); };
                with_il<mpz_class>(k, first, f); }); break;
      case 3: { std::array<mpz_class, N> a; for (size_t i = 0; i < N; i++) a[i] = v[i];
                run_on_object<Obj>(old, [&](Obj& p) { p.set_mpz(a); }); break; }
      case 4: run_on_object<Obj>(old, [&](Obj& p) { p.set_mpz(v[0]); }); break;
      case 5: run_on_object<Obj>(old, [&](Obj& p) { mpz_t z; mpz_init_set(z, v[0].get_mpz_t()); p.set_mpz(z); mpz_clear(z); }); break;
      case 6: run_ctor<Obj>(old, [&]() { mpz_class z(v[0]); return new Obj(z); }); break;
      case 7: run_ctor<Obj>(old, [&]() { mpz_t z; mpz_init_set(z, v[0].get_mpz_t()); Obj* r = new Obj(z); mpz_clear(z); return r; }); break;
      case 8: run_ctor<Obj>(old, [&]() {
                Obj* r = nullptr;
                ILFn<mpz_class> f = [&](std::initializer_list<mpz_class> l) { r = new Obj(l); };
                with_il<mpz_class>(k, first, f);
                return r; }); break;
      case 9: { std::array<mpz_class, N> a; for (size_t i = 0; i < N; i++) a[i] = v[i];
                run_ctor<Obj>(old, [&]() { return new Obj(a); }); break; }
      case 10: run_on_object<Obj>(old, [&](Obj& p) { mpz_class z(v[0]); p = z; }); break;
      case 11: { std::array<mpz_class, N> a; for (size_t i = 0; i < N; i++) a[i] = v[i];
                 run_on_object<Obj>(old, [&](Obj& p) { p = a; }); break; }
      case 12: run_on_object<Obj>(old, [&](Obj& p) {
                 ILFn<mpz_class> f = [&](std::initializer_list<mpz_class> l) { p = l; };
                 with_il<mpz_class>(k, first, f); }); break;
      case 13: run_on_object<Obj>(old, [&](Obj& p) { mpz_t z; mpz_init_set(z, v[0].get_mpz_t()); p = z; mpz_clear(z); }); break;
    }
  }
  template <class Obj> void all_setmpz(int cls) {
    int reps = thorough() ? 6 : 2;
    for (int src = 0; src <= 13; src++) {
      bool any_len = (src == 0 || src == 1 || src == 2 || src == 8 || src == 12);
      bool len_n = (src == 3 || src == 9 || src == 11);
      for (size_t k = 0; k <= NM + 1; k++) {
        if (len_n && k != N) continue;
        if (!any_len && !len_n && k != 1) continue;
        int r = (!any_len ? 16 : (src == 0 && cls == 0 ? 3 * reps : reps));
        for (int i = 0; i < r; i++) setmpz<Obj>(cls, src, mpz_values(k, !any_len && !len_n ? 1 + i : (i == 0 ? 0 : (int)g.below(16))));
      }
    }
  }

  void all() {
    all_setlist<P>(0);
    all_setlist<PP>(1);
    all_setscalar<P>(0);
    all_setscalar<PP>(1);
    all_setmpz<P>(0);
    all_setmpz<PP>(1);
  }
};

#ifndef CFG
#define CFG -1
#endif
int main() {
  Rng g(env_u64("VERIF_SEED", 1) * 7919 + 15 + 1000003 * (CFG + 1));
  static_assert(MAXLEN >= 8 * 3 + 1, "dispatch ladder too short");
  if (CFG == 0 || CFG == -1) H<uint16_t, 8, 2>(g).all();
  if (CFG == 1 || CFG == -1) H<uint32_t, 8, 3>(g).all();
  if (CFG == 2 || CFG == -1) { H<uint32_t, 4, 1>(g).all(); H<uint16_t, 4, 1>(g).all(); }
  if (CFG == 3 || CFG == -1) { H<uint64_t, 4, 2>(g).all(); H<uint64_t, 8, 1>(g).all(); }
  if ((CFG == 4 || CFG == -1) && thorough()) { H<uint64_t, 4, 4>(g).all(); H<uint32_t, 2, 2>(g).all(); }
  return 0;
}
