// C05 correspondence harness: ties the intrinsic-level model (lean/NflVerif/Model/Simd.lean) to the CPU
// and to the SSE/AVX2 kernels of nfl/opt/arch/{sse,avx2}.hpp.
//   (a) i_*  : every modelled intrinsic executed on the real CPU on boundary + random vectors
//   (b) k_*  : every kernel (functors, mulhi helpers, loop bodies, ntt_loop<sse|avx2>::run, poly ==/!=)
// Line format:  <op> <ints> => <ints>   (vectors as lane lists, lane 0 first).
// Built twice: sse (-DNTT_SSE -msse4.2) and avx2 (-DNTT_AVX2 -mavx2; 256-bit parts under NTT_AVX2).
#include "common.hpp"
#include <nfl.hpp>
#include <immintrin.h>

using namespace vh;

#if defined(NTT_AVX2)
#define BK "avx2"
#else
#define BK "sse"
#endif

static int g_n;  // vectors per intrinsic

template <class T> static uint64_t maskT() { return bits<T>() == 64 ? ~0ULL : ((1ULL << bits<T>()) - 1); }

// boundary-directed lane value; `cls` (0..3) is chosen by the caller so that classes are hit by construction
template <class T> static T bval(Rng& g, uint64_t p, int cls) {
  const int w = bits<T>();
  const uint64_t H = 1ULL << (w - 1), M = maskT<T>();
  switch (cls) {
    case 0: {  // fixed word boundaries
      uint64_t c[] = {0, 1, 2, H - 1, H, H + 1, M, M - 1, 0x7fff, 0x8000, 0xffff, 0x10000, 0x7fffffffULL, 0x80000000ULL,
                      0xffffffffULL, 0x100000000ULL, H - 2, M - 2};
      return (T)(c[g.below(sizeof(c) / sizeof(c[0]))] & M);
    }
    case 1: {  // around the modulus and the signed-compare offsets
      uint64_t c[] = {p - 1, p, p + 1, 2 * p - 1, 2 * p, 2 * p + 1, p + H - 1, p + H, p + H + 1, H - p, H - p - 1, H + p,
                      4 * p - 1, 4 * p, 3 * p, p - 2, M - p, M - p + 1, 2 * p + H - 1, 2 * p + H};
      return (T)(c[g.below(sizeof(c) / sizeof(c[0]))] & M);
    }
    case 2: return (T)(g.next() & M);
    default: return (T)g.below(p);
  }
}

template <class T, size_t L> static void fillv(T* v, Rng& g, uint64_t p, int it) {
  // iteration 0..3: whole vector of one class; afterwards classes mixed per lane
  for (size_t l = 0; l < L; l++) v[l] = bval<T>(g, p, it < 4 ? it : (int)g.below(4));
}

template <class T> static void putv(const T* v, size_t n) { for (size_t i = 0; i < n; i++) printf(" %llu", (unsigned long long)v[i]); }

// generic driver for a register -> register intrinsic test
template <class TI, size_t LI, class TO, size_t LO, int NARGS, class F>
static void run_i(const char* name, F f, Rng& g, uint64_t p) {
  for (int it = 0; it < g_n; it++) {
    alignas(32) TI a[LI], b[LI];
    alignas(32) TO o[LO];
    fillv<TI, LI>(a, g, p, it);
    fillv<TI, LI>(b, g, p, (it + 1) % 6);
    if (NARGS == 2 && it % 5 == 4) {  // lanes equal / off by one (compare boundaries)
      for (size_t l = 0; l < LI; l++) b[l] = (TI)(a[l] + (TI)(l % 3) - 1);
    }
    f(a, b, o);
    printf("%s %zu", name, LI);
    putv(a, LI);
    if (NARGS == 2) putv(b, LI);
    printf(" =>");
    putv(o, LO);
    printf("\n");
  }
}

#define LD128(p) _mm_load_si128((const __m128i*)(p))
#define ST128(p, v) _mm_store_si128((__m128i*)(p), (v))
#define I128_2(NAME, TI, LI, TO, LO, EXPR) \
  run_i<TI, LI, TO, LO, 2>(NAME, [](const TI* a, const TI* b, TO* o) { __m128i x = LD128(a), y = LD128(b); (void)y; ST128(o, EXPR); }, g, p)
#define I128_1(NAME, TI, LI, TO, LO, EXPR) \
  run_i<TI, LI, TO, LO, 1>(NAME, [](const TI* a, const TI*, TO* o) { __m128i x = LD128(a); ST128(o, EXPR); }, g, p)

#if defined(NTT_AVX2)
#define LD256(p) _mm256_load_si256((const __m256i*)(p))
#define ST256(p, v) _mm256_store_si256((__m256i*)(p), (v))
#define I256_2(NAME, TI, LI, TO, LO, EXPR) \
  run_i<TI, LI, TO, LO, 2>(NAME, [](const TI* a, const TI* b, TO* o) { __m256i x = LD256(a), y = LD256(b); (void)y; ST256(o, EXPR); }, g, p)
#define I256_1(NAME, TI, LI, TO, LO, EXPR) \
  run_i<TI, LI, TO, LO, 1>(NAME, [](const TI* a, const TI*, TO* o) { __m256i x = LD256(a); ST256(o, EXPR); }, g, p)
#endif

typedef uint16_t u16; typedef uint32_t u32; typedef uint64_t u64;

static void intrinsics(Rng& g) {
  const uint64_t p16 = nfl::params<u16>::P[0], p32 = nfl::params<u32>::P[0], p64 = nfl::params<u64>::P[0];
  uint64_t p;
  // ---------------- 128 bit ----------------
  p = p16;
  I128_2("i_add16", u16, 8, u16, 8, _mm_add_epi16(x, y));
  I128_2("i_sub16", u16, 8, u16, 8, _mm_sub_epi16(x, y));
  I128_2("i_mullo16", u16, 8, u16, 8, _mm_mullo_epi16(x, y));
  I128_2("i_mulhi_epu16", u16, 8, u16, 8, _mm_mulhi_epu16(x, y));
  I128_2("i_cmpgt16", u16, 8, u16, 8, _mm_cmpgt_epi16(x, y));
  I128_2("i_and16", u16, 8, u16, 8, _mm_and_si128(x, y));
  I128_1("i_cvtepu16_128", u16, 8, u32, 4, _mm_cvtepu16_epi32(x));
  I128_1("i_srli_si128_8", u16, 8, u16, 8, _mm_srli_si128(x, 8));
  I128_1("i_to64_16", u16, 8, u64, 2, x);      // reinterpretation 16-bit lanes -> 64-bit lanes
  I128_1("i_from64_16", u64, 2, u16, 8, x);
  p = p32;
  I128_2("i_add32", u32, 4, u32, 4, _mm_add_epi32(x, y));
  I128_2("i_sub32", u32, 4, u32, 4, _mm_sub_epi32(x, y));
  I128_2("i_mullo32", u32, 4, u32, 4, _mm_mullo_epi32(x, y));
  I128_2("i_cmpgt32", u32, 4, u32, 4, _mm_cmpgt_epi32(x, y));
  I128_2("i_and32", u32, 4, u32, 4, _mm_and_si128(x, y));
  I128_2("i_mul_epu32", u32, 4, u64, 2, _mm_mul_epu32(x, y));
  I128_1("i_shuf_b1", u32, 4, u32, 4, _mm_shuffle_epi32(x, 1 | (0 << 2) | (3 << 4) | (2 << 6)));
  I128_2("i_blend", u32, 4, u32, 4, _mm_castps_si128(_mm_blend_ps(_mm_castsi128_ps(x), _mm_castsi128_ps(y), 0b1010)));
  I128_2("i_packus32", u32, 4, u16, 8, _mm_packus_epi32(x, y));
  I128_1("i_view64of32", u32, 4, u64, 2, x);
  I128_1("i_view32of64", u64, 2, u32, 4, x);
  for (int rep = 0; rep < 2; rep++) {
    p = rep ? p64 : p32;
    I128_2("i_add64", u64, 2, u64, 2, _mm_add_epi64(x, y));
    I128_2("i_sub64", u64, 2, u64, 2, _mm_sub_epi64(x, y));
    I128_2("i_cmpgt64", u64, 2, u64, 2, _mm_cmpgt_epi64(x, y));
    I128_2("i_and64", u64, 2, u64, 2, _mm_and_si128(x, y));
    I128_1("i_srli64_32", u64, 2, u64, 2, _mm_srli_epi64(x, 32));
    I128_1("i_slli64_32", u64, 2, u64, 2, _mm_slli_epi64(x, 32));
    I128_2("i_veq64", u64, 2, u64, 2, (__m128i)(x == y));
    I128_2("i_vneq64", u64, 2, u64, 2, (__m128i)(x != y));
  }
  // set1: scalar in (lane 0 of the input vector), vector out
  p = p16; I128_1("i_set1_16", u16, 8, u16, 8, _mm_set1_epi16((short)_mm_extract_epi16(x, 0)));
  p = p32; I128_1("i_set1_32", u32, 4, u32, 4, _mm_set1_epi32(_mm_cvtsi128_si32(x)));
  p = p64; I128_1("i_set1_64", u64, 2, u64, 2, _mm_set1_epi64x(_mm_cvtsi128_si64(x)));
#if defined(NTT_AVX2)
  // ---------------- 256 bit ----------------
  p = p16;
  I256_2("i_add16", u16, 16, u16, 16, _mm256_add_epi16(x, y));
  I256_2("i_sub16", u16, 16, u16, 16, _mm256_sub_epi16(x, y));
  I256_2("i_mullo16", u16, 16, u16, 16, _mm256_mullo_epi16(x, y));
  I256_2("i_mulhi_epu16", u16, 16, u16, 16, _mm256_mulhi_epu16(x, y));
  I256_2("i_cmpgt16", u16, 16, u16, 16, _mm256_cmpgt_epi16(x, y));
  I256_2("i_and16", u16, 16, u16, 16, _mm256_and_si256(x, y));
  run_i<u16, 8, u32, 8, 1>("i_cvtepu16_256", [](const u16* a, const u16*, u32* o) { ST256(o, _mm256_cvtepu16_epi32(LD128(a))); }, g, p);
  I256_1("i_to64_16", u16, 16, u64, 4, x);
  I256_1("i_from64_16", u64, 4, u16, 16, x);
  p = p32;
  I256_2("i_add32", u32, 8, u32, 8, _mm256_add_epi32(x, y));
  I256_2("i_sub32", u32, 8, u32, 8, _mm256_sub_epi32(x, y));
  I256_2("i_mullo32", u32, 8, u32, 8, _mm256_mullo_epi32(x, y));
  I256_2("i_cmpgt32", u32, 8, u32, 8, _mm256_cmpgt_epi32(x, y));
  I256_2("i_and32", u32, 8, u32, 8, _mm256_and_si256(x, y));
  I256_2("i_mul_epu32", u32, 8, u64, 4, _mm256_mul_epu32(x, y));
  I256_1("i_shuf_b1", u32, 8, u32, 8, _mm256_shuffle_epi32(x, 1 | (0 << 2) | (3 << 4) | (2 << 6)));
  I256_2("i_blend", u32, 8, u32, 8, _mm256_castps_si256(_mm256_blend_ps(_mm256_castsi256_ps(x), _mm256_castsi256_ps(y), 0b10101010)));
  I256_1("i_perm2x128_1", u32, 8, u32, 8, _mm256_permute2x128_si256(x, x, 1));
  run_i<u32, 8, u32, 4, 1>("i_cast256_128", [](const u32* a, const u32*, u32* o) { ST128(o, _mm256_castsi256_si128(LD256(a))); }, g, p);
  I256_1("i_view64of32", u32, 8, u64, 4, x);
  I256_1("i_view32of64", u64, 4, u32, 8, x);
  I256_2("i_add64", u64, 4, u64, 4, _mm256_add_epi64(x, y));
  I256_2("i_sub64", u64, 4, u64, 4, _mm256_sub_epi64(x, y));
  I256_2("i_cmpgt64", u64, 4, u64, 4, _mm256_cmpgt_epi64(x, y));
  I256_1("i_srli64_32", u64, 4, u64, 4, _mm256_srli_epi64(x, 32));
  I256_1("i_slli64_32", u64, 4, u64, 4, _mm256_slli_epi64(x, 32));
  I256_2("i_veq64", u64, 4, u64, 4, (__m256i)(x == y));
  I256_2("i_vneq64", u64, 4, u64, 4, (__m256i)(x != y));
  p = p16; I256_1("i_set1_16", u16, 16, u16, 16, _mm256_set1_epi16((short)_mm256_extract_epi16(x, 0)));
  p = p32; I256_1("i_set1_32", u32, 8, u32, 8, _mm256_set1_epi32(_mm256_extract_epi32(x, 0)));
  p = p64; I256_1("i_set1_64", u64, 4, u64, 4, _mm256_set1_epi64x(_mm256_extract_epi64(x, 0)));
#endif
}

// ------------------------------------------------------------------------------------------------
// kernels
// ------------------------------------------------------------------------------------------------
template <class Tag, class T> struct LN { static constexpr size_t n = Tag::template elt_count<T>::value; };
template <class Tag> struct TagName;
template <> struct TagName<nfl::simd::sse> { static const char* s() { return "sse"; } };
#if defined(NTT_AVX2)
template <> struct TagName<nfl::simd::avx2> { static const char* s() { return "avx2"; } };
#endif

template <class T> static void head(const char* op, const char* tag, size_t cm, size_t L) {
  printf("%s_%s %d %zu %zu", op, tag, bits<T>(), cm, L);
}

// canonical operand pairs on the conditional-subtraction boundary, lane by lane
template <class T, size_t L> static void fill_pairs(T* x, T* y, Rng& g, T p, int it) {
  for (size_t l = 0; l < L; l++) {
    T a = (T)g.below(p);
    int c = (it + l) % 8;
    switch (c) {
      case 0: x[l] = a; y[l] = (T)(p - a); if (a == 0) y[l] = 0; break;        // sum = p
      case 1: x[l] = a; y[l] = (T)(p - 1 - a); break;                          // sum = p-1
      case 2: x[l] = (T)(a ? a : 1); y[l] = (T)(p + 1 - x[l]); if (x[l] == 1) y[l] = 0; break;  // sum = p+1
      case 3: x[l] = (T)(p - 1); y[l] = (T)(p - 1); break;
      case 4: x[l] = 0; y[l] = a; break;
      case 5: x[l] = a; y[l] = a; break;
      default: x[l] = a; y[l] = (T)g.below(p); break;
    }
  }
}

template <class Tag, class T> static void k_addsub(Rng& g, size_t cm) {
  constexpr size_t L = LN<Tag, T>::n;
  const T p = nfl::params<T>::P[cm];
  for (int it = 0; it < g_n + 8; it++) {
    alignas(32) T x[L], y[L], o[L];
    if (it < 8) fill_pairs<T, L>(x, y, g, p, it);
    else { fillv<T, L>(x, g, p, it - 8); fillv<T, L>(y, g, p, (it - 7) % 6); }   // arbitrary words: the lane theorems need no range
    Tag::store(o, nfl::ops::addmod<T, Tag>{}(Tag::load(x), Tag::load(y), cm));
    head<T>("k_addmod", TagName<Tag>::s(), cm, L); putv(x, L); putv(y, L); printf(" =>"); putv(o, L); printf("\n");
    Tag::store(o, nfl::ops::submod<T, Tag>{}(Tag::load(x), Tag::load(y), cm));
    head<T>("k_submod", TagName<Tag>::s(), cm, L); putv(x, L); putv(y, L); printf(" =>"); putv(o, L); printf("\n");
  }
}

// (x, y, y') triples: y' the true Shoup companion of y < p (the regime of the lane theorem), x any word;
// from iteration `nreg` on y' is an arbitrary word (model comparison only).
template <class T, size_t L> static void fill_shoup(T* x, T* y, T* yp, T* z, Rng& g, size_t cm, int it, int nreg) {
  using G = typename nfl::params<T>::greater_value_type;
  const T p = nfl::params<T>::P[cm];
  const int w = bits<T>();
  for (size_t l = 0; l < L; l++) {
    int c = (it + l) % 7;
    T yy = (T)g.below(p);
    if (c == 0) yy = (T)(p - 1);
    if (c == 1) yy = 1;
    if (c == 2) yy = 0;
    y[l] = yy;
    yp[l] = (T)((((G)yy) << w) / p);
    x[l] = bval<T>(g, p, (it + (int)l) % 4);
    if (c == 3) x[l] = (T)(p - 1);
    if (c == 4) x[l] = (T)~(T)0;
    if (c == 5 && (yp[l] & 1)) {   // x*y' just below / above a multiple of 2^w
      T inv = yp[l]; for (int k = 0; k < 7; k++) inv = (T)(inv * (T)(2 - yp[l] * inv));
      x[l] = (T)((T)(g.below(5) - 2) * inv);
    }
    z[l] = (T)g.below(p);
    if (c == 6) z[l] = (T)(p - 1);
    if (it >= nreg) { yp[l] = bval<T>(g, p, (int)g.below(4)); if (it % 2) y[l] = bval<T>(g, p, (int)g.below(4)); if (it % 3 == 0) z[l] = bval<T>(g, p, (int)g.below(4)); }
  }
}

template <class Tag, class T, bool muladd> static void k_shoup(Rng& g, size_t cm) {
  using F = nfl::ops::mulmod_shoup<T, Tag>;
  using M = typename F::simd_mode;   // registers are __m128i for all vector Shoup kernels
  constexpr size_t L = LN<M, T>::n;
  const int nreg = g_n + 6;
  for (int it = 0; it < nreg + 6; it++) {
    alignas(32) T x[L], y[L], yp[L], z[L], o[L];
    fill_shoup<T, L>(x, y, yp, z, g, cm, it, nreg);
    M::store(o, F{}(M::load(x), M::load(y), M::load(yp), cm));
    head<T>("k_mulshoup", TagName<Tag>::s(), cm, L); putv(x, L); putv(y, L); putv(yp, L); printf(" =>"); putv(o, L); printf("\n");
    if constexpr (muladd) {
      M::store(o, nfl::ops::muladd_shoup<T, Tag>{}(M::load(z), M::load(x), M::load(y), M::load(yp), cm));
      head<T>("k_muladdshoup", TagName<Tag>::s(), cm, L); putv(z, L); putv(x, L); putv(y, L); putv(yp, L); printf(" =>"); putv(o, L); printf("\n");
    }
  }
}

static void k_mulhi32(Rng& g) {
  const uint64_t p = nfl::params<u32>::P[0];
  for (int it = 0; it < g_n + 4; it++) {
    alignas(32) u32 a[8], b[8], o[8];
    fillv<u32, 8>(a, g, p, it); fillv<u32, 8>(b, g, p, (it + 1) % 6);
    ST128(o, nfl::ops::mulhi_epu32(LD128(a), LD128(b)));
    printf("k_mulhi32_sse 4"); putv(a, 4); putv(b, 4); printf(" =>"); putv(o, 4); printf("\n");
#if defined(NTT_AVX2)
    ST256(o, nfl::ops::avx2_mulhi_epu32(LD256(a), LD256(b)));
    printf("k_mulhi32_avx2 8"); putv(a, 8); putv(b, 8); printf(" =>"); putv(o, 8); printf("\n");
#endif
  }
}

template <class Tag, class T> static void k_bfly(Rng& g, size_t cm) {
  using P = nfl::poly<T, 64, 1>;
  constexpr size_t L = LN<Tag, T>::n;
  const T p = nfl::params<T>::P[cm];
  nfl::ops::ntt_loop_body<Tag, P, T> body(p);
  for (int it = 0; it < g_n + 6; it++) {
    alignas(32) T u0[L], u1[L], wi[L], wt[L], a[L], b[L];
    for (size_t l = 0; l < L; l++) {
      // lazy inputs in [0,4p) on the 2p boundary of t0, and arbitrary words
      int c = (it + l) % 6;
      T r = (T)g.below(2 * (uint64_t)p);
      u0[l] = (T)g.below(4 * (uint64_t)p); u1[l] = (T)g.below(4 * (uint64_t)p);
      if (c == 0) { u0[l] = r; u1[l] = (T)(2 * p - r); }
      if (c == 1) { u0[l] = r; u1[l] = (T)(2 * p - 1 - r); }
      if (c == 2) { u0[l] = u1[l]; }
      if (it >= 6 && c == 3) { u0[l] = bval<T>(g, p, (int)g.below(3)); u1[l] = bval<T>(g, p, (int)g.below(3)); }
      wt[l] = (it % 2) ? (T)g.below(p) : bval<T>(g, p, (int)g.below(4));
      wi[l] = (it % 2) ? (T)((((typename nfl::params<T>::greater_value_type)wt[l]) << bits<T>()) / p) : bval<T>(g, p, (int)g.below(4));
    }
    memcpy(a, u0, sizeof a); memcpy(b, u1, sizeof b);
    body(a, b, wi, wt);
    head<T>("k_bfly", TagName<Tag>::s(), cm, L); putv(u0, L); putv(u1, L); putv(wi, L); putv(wt, L);
    printf(" =>"); putv(a, L); putv(b, L); printf("\n");
  }
}

// ntt_loop<Tag>::run on arbitrary data words and arbitrary / real tables
template <class Tag, class T, size_t N> static void k_nttloop(Rng& g, size_t cm) {
  using P = nfl::poly<T, N, 1>;
  const T p = nfl::params<T>::P[cm];
  constexpr size_t k = nfl::static_log2<N>::value;
  for (int kind = 0; kind < 3; kind++) {
    alignas(32) static T x[N], x0[N], wt[N], wi[N];
    for (size_t i = 0; i < N; i++) {
      if (kind == 0) { x[i] = (T)g.below(p); wt[i] = (T)g.below(p); wi[i] = (T)((((typename nfl::params<T>::greater_value_type)wt[i]) << bits<T>()) / p); }
      else if (kind == 1) { x[i] = (T)g.below(4 * (uint64_t)p); wt[i] = (T)(g.next()); wi[i] = (T)(g.next()); }
      else { x[i] = bval<T>(g, p, (int)g.below(3)); wt[i] = bval<T>(g, p, (int)g.below(4)); wi[i] = bval<T>(g, p, (int)g.below(4)); }
    }
    memcpy(x0, x, sizeof x);
    const T* a = wt; const T* b = wi;
    size_t M = nfl::ops::ntt_loop<Tag, P, T>::run(x, a, b, p);
    if (M != N / 4 || a != wt + (N - 4) || b != wi + (N - 4)) { printf("k_nttloop_%s_BADPTR 0 => 1\n", TagName<Tag>::s()); }
    printf("k_nttloop_%s %d %zu %zu", TagName<Tag>::s(), bits<T>(), cm, k);
    putv(x0, N); putv(wt, N); putv(wi, N); printf(" =>"); putv(x, N); printf("\n");
  }
}

// whole polynomials: bool(a == b), bool(a != b) with CC_SIMD of this build
template <class T, size_t N, size_t NM> static void k_polycmp(Rng& g) {
  using P = nfl::poly<T, N, NM>;
  constexpr size_t L = LN<CC_SIMD, T>::n;
  alignas(32) static P a, b;
  const size_t total = N * NM;
  for (int it = 0; it < (int)(2 * L + 6); it++) {
    for (size_t cm = 0; cm < NM; cm++) for (size_t i = 0; i < N; i++) { a(cm, i) = (T)g.below(P::get_modulus(cm)); b(cm, i) = a(cm, i); }
    size_t ndiff = 0;
    if (it < (int)(2 * L)) {        // exactly one differing element, visiting every lane position of two registers
      size_t pos = (total - 2 * L + it) % total; if (it % 2) pos = it % total;
      b(pos / N, pos % N) = (T)(a(pos / N, pos % N) ^ (T)(1u << (it % bits<T>()))); ndiff = 1;
    } else if (it == (int)(2 * L)) ndiff = 0;
    else if (it == (int)(2 * L) + 1) { for (size_t cm = 0; cm < NM; cm++) for (size_t i = 0; i < N; i++) b(cm, i) = (T)(a(cm, i) + 1); ndiff = total; }
    else { for (size_t j = 0; j < 3; j++) { size_t pos = g.below(total); b(pos / N, pos % N) = (T)g.below(P::get_modulus(pos / N)); } }
    (void)ndiff;
    bool eq = (a == b), ne = (a != b);
    printf("k_polyeq_%s %d %zu %zu", BK, bits<T>(), L, total); putv(&a(0, 0), total); putv(&b(0, 0), total); printf(" => %d\n", eq ? 1 : 0);
    printf("k_polyneq_%s %d %zu %zu", BK, bits<T>(), L, total); putv(&a(0, 0), total); putv(&b(0, 0), total); printf(" => %d\n", ne ? 1 : 0);
  }
}

template <class Tag> static void kernels_for(Rng& g) {
  auto rows16 = rows_to_visit(nfl::params<u16>::kMaxNbModuli, 2, g);
  auto rows32 = rows_to_visit(nfl::params<u32>::kMaxNbModuli, thorough() ? 12 : 4, g);
  for (size_t cm : rows16) {
    k_addsub<Tag, u16>(g, cm);
    k_shoup<Tag, u16, true>(g, cm);
    k_bfly<Tag, u16>(g, cm);
  }
  for (size_t cm : rows32) {
    k_addsub<Tag, u32>(g, cm);
    if (std::is_same<Tag, nfl::simd::sse>::value) k_shoup<Tag, u32, false>(g, cm);   // avx2 inherits the sse kernel
    k_bfly<Tag, u32>(g, cm);
  }
  k_nttloop<Tag, u16, 8>(g, 0); k_nttloop<Tag, u16, 16>(g, 1); k_nttloop<Tag, u16, 32>(g, 0); k_nttloop<Tag, u16, 64>(g, 1);
  k_nttloop<Tag, u16, 256>(g, 0);
  k_nttloop<Tag, u32, 8>(g, 0); k_nttloop<Tag, u32, 16>(g, 1); k_nttloop<Tag, u32, 32>(g, 2); k_nttloop<Tag, u32, 64>(g, 3);
  k_nttloop<Tag, u32, 128>(g, 0);
  if (thorough()) { k_nttloop<Tag, u16, 128>(g, 0); k_nttloop<Tag, u16, 512>(g, 1); k_nttloop<Tag, u32, 512>(g, 5); k_nttloop<Tag, u32, 1024>(g, 7); }
}

int main() {
  uint64_t seed = env_u64("VERIF_SEED", 1);
  Rng g(seed);
  g_n = (int)env_u64("VERIF_NVEC", thorough() ? 400 : 60);
  printf("# simd backend=%s seed=%llu tier=%s\n", BACKEND_NAME, (unsigned long long)seed, thorough() ? "thorough" : "quick");
  intrinsics(g);
  g_n = (int)env_u64("VERIF_NVEC", thorough() ? 200 : 30);
  k_mulhi32(g);
  kernels_for<nfl::simd::sse>(g);
#if defined(NTT_AVX2)
  kernels_for<nfl::simd::avx2>(g);
#endif
  k_polycmp<u16, 16, 2>(g); k_polycmp<u16, 64, 1>(g);
  k_polycmp<u32, 16, 2>(g); k_polycmp<u32, 32, 3>(g);
  k_polycmp<u64, 8, 2>(g); k_polycmp<u64, 16, 1>(g);
  return 0;
}
