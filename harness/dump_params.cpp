// Prints the constant tables of params.hpp exactly as the compiler sees them.
// Built against /repo's current include/nfl/params.hpp and lib/params/params.cpp on every run.
#include <cstdio>
#include <cstdint>
#include <cinttypes>
#include "nfl/params.hpp"
template <class T> static void dump(const char* tag) {
  using P = nfl::params<T>;
  printf("%s kMaxNbModuli %u\n", tag, (unsigned)P::kMaxNbModuli);
  printf("%s kModulusBitsize %u\n", tag, (unsigned)P::kModulusBitsize);
  printf("%s kModulusRepresentationBitsize %u\n", tag, (unsigned)P::kModulusRepresentationBitsize);
  printf("%s kMaxPolyDegree %llu\n", tag, (unsigned long long)P::kMaxPolyDegree);
  printf("%s sizeof %u %u\n", tag, (unsigned)sizeof(typename P::value_type), (unsigned)sizeof(typename P::greater_value_type));
  const T* tabs[4] = {P::P, P::Pn, P::primitive_roots, P::invkMaxPolyDegree};
  const char* names[4] = {"P", "Pn", "primitive_roots", "invkMaxPolyDegree"};
  size_t lens[4] = {sizeof(P::P)/sizeof(T), sizeof(P::Pn)/sizeof(T), sizeof(P::primitive_roots)/sizeof(T), sizeof(P::invkMaxPolyDegree)/sizeof(T)};
  for (int t = 0; t < 4; t++) {
    printf("%s %s %zu", tag, names[t], lens[t]);
    for (size_t i = 0; i < lens[t]; i++) printf(" %" PRIu64, (uint64_t)tabs[t][i]);
    printf("\n");
  }
}
int main() { dump<uint16_t>("16"); dump<uint32_t>("32"); dump<uint64_t>("64"); return 0; }
