// C17 runtime part: real thread schedules observed under ThreadSanitizer.
//
// Built with -fsanitize=thread (TSan cannot be combined with ASan).  Static initialisation (transform tables, CRT
// constants, permutation tables) happens before main; threads are started afterwards.  For T = 2…16 threads, every
// thread runs a seeded mixed sequence of arithmetic API operations on objects that are PRIVATE to it (poly and
// poly_p, several configurations incl. degree 2048 where the bit-reversal uses the static table permut<>::P).
// The same sequences are first run one after the other on the main thread; the per-thread digests must be equal.
// TSan flags a conflicting access pair whatever the actual timing (happens-before detector); every report is
// counted through __tsan_on_report and also makes the process exit with 66.
//
//
// FIRST-USE rounds (before the rounds above).  A static that is built lazily is written exactly once, by whoever comes
// first; once somebody - in particular the main thread computing a sequential reference - has executed an operation,
// neither a race detector nor a result comparison can see anything.  So for every configuration class of the degree-
// dependent code paths (unrolled bit reversal <= 1024 / static 16-bit table 1025..32768 / degree > 32768; all limb
// widths that exist in the class) a FRESH PROCESS (re-exec of this binary, VERIF_FIRST) is started in which the main
// thread executes NO library operation: worker threads are released together by a barrier and perform the first
// execution in that process of every operation (a prologue runs each operation once; the two threads of a pair use the
// same type and the same operation order, so they stay in lockstep and race on every first use; different pairs start
// at different operations).  The sequential reference digests come from ANOTHER fresh process (VERIF_FIRSTREF).
//
// The first-use rounds are also run by an UNSANITISED build (VERIF_FIRSTONLY=1, VERIF_FIRST_REPS=n; real speed, workers
// in lockstep through the prologue): wrong digests / crashes of a half-built table are observed there, and faults in
// code ThreadSanitizer does not instrument are not missed.
//
// Output (one line per round):   conc17 <threads> <round-seed> <opcount> => <digests-equal 0|1> <tsan-reports>
//                                conc17f <class> <max-degree> <threads> <round-seed> <opcount> => <digests-equal> <tsan-reports | 1000+signal>
// Replay of one round:           VERIF_ONLY="<threads> <round-seed>" ./conc17   (same VERIF_SEED / VERIF_TIER)
//                                VERIF_FIRST="<class> <threads> <round-seed>" ./conc17
#include <atomic>
#include <memory>
#include <sys/wait.h>
#include <unistd.h>
#include <sstream>
#include <thread>
#include <nfl.hpp>
#include "common.hpp"

static std::atomic<int> g_reports{0};
extern "C" void __tsan_on_report(void*) { g_reports.fetch_add(1, std::memory_order_relaxed); }

// Lockstep for the first-use prologue of the NATIVE (unsanitised) build: all workers of a round meet before every
// prologue step, so the first executions of an operation start within ~100 ns of each other and a lazy initialisation
// of ~1 ms is really overlapped (wrong results / crashes become visible).  Not used under ThreadSanitizer: there a
// conflicting pair is reported whatever the timing, and a barrier would add happens-before edges between the steps.
struct SpinBarrier {
  std::atomic<unsigned> count{0}, gen{0};
  unsigned n = 1;
  void wait() {
    unsigned g = gen.load(std::memory_order_acquire);
    if (count.fetch_add(1, std::memory_order_acq_rel) + 1 == n) {
      count.store(0, std::memory_order_relaxed);
      gen.store(g + 1, std::memory_order_release);
    } else {
      unsigned spins = 0;
      while (gen.load(std::memory_order_acquire) == g)
        if (++spins > 20000) { std::this_thread::yield(); spins = 0; }
    }
  }
};
static thread_local SpinBarrier* tl_sync = nullptr;
static const unsigned kPrologueSteps = 14;   // >= the number of operations of every work function

struct Digest {
  uint64_t h = 0xcbf29ce484222325ULL;
  void add(uint64_t v) { h ^= v; h *= 0x100000001b3ULL; h ^= h >> 29; }
  void bytes(const void* p, size_t n) { const unsigned char* c = (const unsigned char*)p; for (size_t i = 0; i < n; i++) add(c[i]); }
};

template <class P> static void fold(Digest& d, P const& p) {
  for (auto v : p) d.add((uint64_t)v);
}

// A seeded mixed op sequence on private poly objects.
template <class T, size_t D, size_t M>
static uint64_t work_poly(uint64_t seed, unsigned nops, int start) {
  using P = nfl::poly<T, D, M>;
  vh::Rng rng(seed);
  Digest dg;
  // heap objects (32-byte aligned by operator new of the over-aligned type), private to this call
  std::unique_ptr<P> a(new P), b(new P), c(new P), s(new P);
  std::vector<T> vals(D);
  auto fill = [&](P& p) {
    for (auto& v : vals) v = (T)rng.next();
    p.set(vals.begin(), vals.end());
  };
  fill(*a); fill(*b);
  std::unique_ptr<std::array<mpz_t, D>> arrp(new std::array<mpz_t, D>);
  std::array<mpz_t, D>& arr = *arrp;
  for (size_t i = 0; i < D; i++) mpz_init(arr[i]);
  const unsigned kOps = 14;
  auto step = [&](unsigned which) {
    switch (which) {
      case 0: fill(*a); break;
      case 1: { P t{(T)rng.next(), (T)rng.next(), (T)rng.next()}; *b = t; break; }
      case 2: a->ntt_pow_phi(); break;
      case 3: a->invntt_pow_invphi(); break;
      case 4: *c = *a + *b; break;
      case 5: *c = *a - *b; break;
      case 6: *c = *a * *b; break;
      case 7: *s = nfl::compute_shoup(*b); *c = nfl::shoup(*a * *b, *s); break;
      case 8: dg.add((*a == *b) ? 1 : 2); dg.add((*a != *c) ? 3 : 4); dg.add((*c == *c) ? 5 : 6); break;
      case 9: {
        a->poly2mpz(arr);
        for (size_t i = 0; i < D; i += (D > 64 ? 17 : 1)) dg.add(mpz_fdiv_ui(arr[i], 0xfffffffbUL));
        c->mpz2poly(arr);
        break;
      }
      case 10: {
        mpz_class z((unsigned long)rng.next());
        z = z * z * z + 12345;
        b->set_mpz(z);
        break;
      }
      case 11: {
        std::stringstream ss;
        a->serialize_manually(ss);
        c->deserialize_manually(ss);
        break;
      }
      case 12: {
        std::ostringstream os;
        os << *b;
        std::string str = os.str();
        dg.bytes(str.data(), str.size());
        break;
      }
      case 13: { *c = *a * *b + *a - *b; dg.add((bool)*c); break; }
    }
    fold(dg, *a); fold(dg, *b); fold(dg, *c);
  };
  if (start >= 0)   // first-use prologue: every operation once, beginning with operation `start`
    for (unsigned j = 0; j < kPrologueSteps; j++) {
      if (tl_sync) tl_sync->wait();
      if (j < kOps) step(((unsigned)start + j) % kOps);
    }
  for (unsigned k = 0; k < nops; k++) step(rng.below(kOps));
  for (size_t i = 0; i < D; i++) mpz_clear(arr[i]);
  return dg.h;
}

template <class X> static X const& cref(X& x) { return x; }  // poly_p's generic operator=(O&&) would swallow a non-const handle

// The same on copy-on-write handles (private handles; payloads are shared only between handles of this thread).
template <class T, size_t D, size_t M>
static uint64_t work_polyp(uint64_t seed, unsigned nops, int start) {
  using PP = nfl::poly_p<T, D, M>;
  vh::Rng rng(seed);
  Digest dg;
  std::vector<T> vals(D);
  auto mk = [&]() {
    for (auto& v : vals) v = (T)rng.next();
    return PP(vals.begin(), vals.end());
  };
  PP a = mk(), b = mk(), c;
  std::unique_ptr<std::array<mpz_t, D>> arrp(new std::array<mpz_t, D>);
  std::array<mpz_t, D>& arr = *arrp;
  for (size_t i = 0; i < D; i++) mpz_init(arr[i]);
  const unsigned kOps = 11;
  auto step = [&](unsigned which) {
    switch (which) {
      case 0: a = mk(); break;
      case 1: { PP t(a); c = cref(t); break; }                      // handle copies
      case 2: { PP t(a); t(rng.below(M), rng.below(D)) = 1; dg.add(t == a ? 1 : 2); c = cref(t); break; }  // copy-on-write
      case 3: a.ntt_pow_phi(); break;
      case 4: a.invntt_pow_invphi(); break;
      case 5: c = a + b; break;
      case 6: c = a * b - a; break;
      case 7: dg.add((a == b) ? 1 : 2); dg.add((a != c) ? 3 : 4); break;
      case 8: {
        a.poly2mpz(arr);
        for (size_t i = 0; i < D; i += (D > 64 ? 17 : 1)) dg.add(mpz_fdiv_ui(arr[i], 0xfffffffbUL));
        c.mpz2poly(arr);
        break;
      }
      case 9: {
        std::stringstream ss;
        a.serialize_manually(ss);
        c.deserialize_manually(ss);
        break;
      }
      case 10: { PP t(b); b = cref(a); a = cref(t); break; }                // swap handles
    }
    fold(dg, cref(a).poly_obj()); fold(dg, cref(b).poly_obj()); fold(dg, cref(c).poly_obj());  // const access: no detach
  };
  if (start >= 0)
    for (unsigned j = 0; j < kPrologueSteps; j++) {
      if (tl_sync) tl_sync->wait();
      if (j < kOps) step(((unsigned)start + j) % kOps);
    }
  for (unsigned k = 0; k < nops; k++) step(rng.below(kOps));
  for (size_t i = 0; i < D; i++) mpz_clear(arr[i]);
  return dg.h;
}

typedef uint64_t (*WorkFn)(uint64_t, unsigned, int);
struct Cfg { const char* name; WorkFn fn; unsigned ops_quick, ops_thorough; size_t degree; };
static const Cfg kCfgs[] = {
    {"poly<u32,64,2>", work_poly<uint32_t, 64, 2>, 800, 4000, 64},
    {"poly<u64,256,3>", work_poly<uint64_t, 256, 3>, 250, 1200, 256},
    {"poly<u16,64,1>", work_poly<uint16_t, 64, 1>, 800, 4000, 64},
    {"poly<u64,2048,1>", work_poly<uint64_t, 2048, 1>, 60, 300, 2048},
    {"poly_p<u32,64,2>", work_polyp<uint32_t, 64, 2>, 800, 4000, 64},
    {"poly_p<u64,256,3>", work_polyp<uint64_t, 256, 3>, 250, 1200, 256},
    {"poly_p<u32,2048,1>", work_polyp<uint32_t, 2048, 1>, 60, 300, 2048},
    // first-use rounds only (not part of the rotation of the mixed rounds: kNCfg)
    {"poly<u32,32768,1>", work_poly<uint32_t, 32768, 1>, 4, 8, 32768},
    {"poly<u64,65536,1>", work_poly<uint64_t, 65536, 1>, 3, 6, 65536},
    {"poly_p<u64,65536,2>", work_polyp<uint64_t, 65536, 2>, 3, 6, 65536},
};
static const size_t kNCfg = 7;

// configuration classes of the degree-dependent code paths; the types of one class that share a degree share the
// bit-reversal table permut<degree>::P, types always have their own transform / CRT tables (poly<>::base, ::gmp)
struct FirstClass { const char* name; std::vector<size_t> cfgs; };
static const FirstClass kFirst[] = {
    {"unrolled(<=1024)", {0, 1, 2, 4, 5}},
    {"static-table(1025..32768)", {3, 6, 7}},
    {"over-32768", {8, 9}},
};
static const size_t kNFirst = sizeof(kFirst) / sizeof(kFirst[0]);

struct Task { size_t cfg; uint64_t seed; unsigned nops; uint64_t seq = 0, conc = 0; int start = -1; };

static bool run_round(unsigned T, uint64_t round_seed) {
  vh::Rng rng(round_seed);
  std::vector<Task> tasks(T);
  unsigned opcount = 0;
  size_t rot = rng.below(kNCfg);
  for (unsigned i = 0; i < T; i++) {
    tasks[i].cfg = (rot + i) % kNCfg;   // neighbours use different configurations AND (T > kNCfg) the same one
    tasks[i].seed = rng.next();
    tasks[i].nops = vh::thorough() ? kCfgs[tasks[i].cfg].ops_thorough : kCfgs[tasks[i].cfg].ops_quick;
    opcount += tasks[i].nops;
  }
  if (T >= 2 && rng.below(2)) tasks[1].cfg = tasks[0].cfg, tasks[1].nops = tasks[0].nops;  // two threads on the same statics
  int rep0 = g_reports.load();
  for (auto& t : tasks) t.seq = kCfgs[t.cfg].fn(t.seed, t.nops, -1);   // sequential reference
  std::atomic<unsigned> ready{0};
  std::atomic<bool> go{false};
  std::vector<std::thread> th;
  for (unsigned i = 0; i < T; i++)
    th.emplace_back([&, i] {
      ready.fetch_add(1);
      while (!go.load(std::memory_order_acquire)) std::this_thread::yield();
      tasks[i].conc = kCfgs[tasks[i].cfg].fn(tasks[i].seed, tasks[i].nops, -1);
    });
  while (ready.load() < T) std::this_thread::yield();
  go.store(true, std::memory_order_release);
  for (auto& t : th) t.join();
  bool eq = true;
  for (unsigned i = 0; i < T; i++)
    if (tasks[i].seq != tasks[i].conc) {
      eq = false;
      fprintf(stderr, "conc17: thread %u (%s, seed %llu): sequential digest %016llx, concurrent digest %016llx\n", i,
              kCfgs[tasks[i].cfg].name, (unsigned long long)tasks[i].seed, (unsigned long long)tasks[i].seq,
              (unsigned long long)tasks[i].conc);
    }
  int reps = g_reports.load() - rep0;
  printf("conc17 %u %llu %u => %d %d\n", T, (unsigned long long)round_seed, opcount, eq ? 1 : 0, reps);
  fflush(stdout);
  return eq && reps == 0;
}

// ---------------------------------------------------------------------------------------------------------------
// first-use rounds
static std::vector<Task> first_tasks(size_t cls, unsigned T, uint64_t round_seed) {
  vh::Rng rng(round_seed ^ (0x9e37ULL * (cls + 1)));
  const FirstClass& fc = kFirst[cls];
  std::vector<Task> tasks(T);
  size_t rot = rng.below(fc.cfgs.size());
  for (unsigned i = 0; i < T; i++) {
    unsigned pair = i / 2;                                   // the two threads of a pair: same type, same operation order
    tasks[i].cfg = fc.cfgs[(rot + pair) % fc.cfgs.size()];
    tasks[i].seed = rng.next();
    tasks[i].nops = vh::thorough() ? 12 : 4;
    if (kCfgs[tasks[i].cfg].degree > 4096) tasks[i].nops = vh::thorough() ? 4 : 1;
  }
  for (unsigned i = 0; i < T; i += 2) {
    int st = (int)rng.below(14);
    tasks[i].start = st;
    if (i + 1 < T) tasks[i + 1].start = st;
  }
  return tasks;
}

static int popen_self(const char* var, const std::string& val, std::string* out) {
  // re-exec this binary with one more environment variable; the main thread has not created any thread yet
  fflush(stdout);
  int fds[2] = {-1, -1};
  if (out && pipe(fds) != 0) return -1;
  pid_t pid = fork();
  if (pid < 0) return -1;
  if (pid == 0) {
    if (out) { dup2(fds[1], 1); close(fds[0]); close(fds[1]); }
    setenv(var, val.c_str(), 1);
    execl("/proc/self/exe", "conc17", (char*)nullptr);
    _exit(127);
  }
  if (out) {
    close(fds[1]);
    char buf[4096]; ssize_t n;
    while ((n = read(fds[0], buf, sizeof buf)) > 0) out->append(buf, (size_t)n);
    close(fds[0]);
  }
  int st = 0;
  while (waitpid(pid, &st, 0) < 0) {}
  return st;
}

// VERIF_FIRSTREF="<class> <T> <seed>": the same task list, one task after the other, in this (fresh) process
static int first_ref(size_t cls, unsigned T, uint64_t round_seed) {
  std::vector<Task> tasks = first_tasks(cls, T, round_seed);
  for (auto& t : tasks) printf("%llu\n", (unsigned long long)kCfgs[t.cfg].fn(t.seed, t.nops, t.start));
  return 0;
}

// VERIF_FIRST="<class> <T> <seed>": this process has executed no library operation; the workers do the first ones
static int first_round(size_t cls, unsigned T, uint64_t round_seed) {
  std::vector<Task> tasks = first_tasks(cls, T, round_seed);
  char spec[96];
  snprintf(spec, sizeof spec, "%zu %u %llu", cls, T, (unsigned long long)round_seed);
  std::string ref;
  int rst = popen_self("VERIF_FIRSTREF", spec, &ref);       // another fresh process; before any thread exists here
  bool ref_ok = WIFEXITED(rst) && WEXITSTATUS(rst) == 0;
  {
    const char* p = ref.c_str();
    for (auto& t : tasks) {
      char* e = nullptr;
      t.seq = strtoull(p, &e, 10);
      if (e == p) ref_ok = false;
      p = e;
    }
  }
  unsigned opcount = 0;
  size_t maxdeg = 0;
  for (auto& t : tasks) { opcount += t.nops + 14; maxdeg = std::max(maxdeg, kCfgs[t.cfg].degree); }
  std::atomic<unsigned> ready{0};
  std::atomic<bool> go{false};
  SpinBarrier lockstep;
  lockstep.n = T;
  std::vector<std::thread> th;
  for (unsigned i = 0; i < T; i++)
    th.emplace_back([&, i] {
#if !defined(__SANITIZE_THREAD__)
      tl_sync = &lockstep;
#endif
      ready.fetch_add(1);
      while (!go.load(std::memory_order_acquire)) {}        // spin: all workers leave the barrier within nanoseconds
      tasks[i].conc = kCfgs[tasks[i].cfg].fn(tasks[i].seed, tasks[i].nops, tasks[i].start);
    });
  while (ready.load() < T) std::this_thread::yield();
  go.store(true, std::memory_order_release);
  for (auto& t : th) t.join();
  bool eq = ref_ok;
  if (!ref_ok) fprintf(stderr, "conc17: first-use round %s: the sequential reference process failed (status %d)\n", spec, rst);
  for (unsigned i = 0; i < T && ref_ok; i++)
    if (tasks[i].seq != tasks[i].conc) {
      eq = false;
      fprintf(stderr, "conc17: first-use round, class %s, thread %u (%s, seed %llu, first operation %d): digest in a sequential process %016llx, as first user among %u threads %016llx\n",
              kFirst[cls].name, i, kCfgs[tasks[i].cfg].name, (unsigned long long)tasks[i].seed, tasks[i].start,
              (unsigned long long)tasks[i].seq, T, (unsigned long long)tasks[i].conc);
    }
  int reps = g_reports.load();
  printf("conc17f %zu %zu %u %llu %u => %d %d\n", cls, maxdeg, T, (unsigned long long)round_seed, opcount, eq ? 1 : 0, reps);
  fflush(stdout);
  return eq && reps == 0 ? 0 : 1;
}

// parent side: run one first-use round in a fresh process; a crash of that process is a verdict too
static bool spawn_first(size_t cls, unsigned T, uint64_t round_seed) {
  char spec[96];
  snprintf(spec, sizeof spec, "%zu %u %llu", cls, T, (unsigned long long)round_seed);
  int st = popen_self("VERIF_FIRST", spec, nullptr);
  if (WIFEXITED(st) && WEXITSTATUS(st) != 127) return WEXITSTATUS(st) == 0;   // the child printed its own line (1 / 66: verdicts)
  int sig = WIFSIGNALED(st) ? WTERMSIG(st) : 0;
  size_t maxdeg = 0;
  for (size_t c : kFirst[cls].cfgs) maxdeg = std::max(maxdeg, kCfgs[c].degree);
  fprintf(stderr, "conc17: first-use round %s (class %s): the process was terminated by signal %d\n", spec, kFirst[cls].name, sig);
  printf("conc17f %zu %zu %u %llu 0 => 0 %d\n", cls, maxdeg, T, (unsigned long long)round_seed, 1000 + sig);
  fflush(stdout);
  return false;
}

int main() {
  uint64_t seed = vh::env_u64("VERIF_SEED", 1);
  for (const char* var : {"VERIF_FIRSTREF", "VERIF_FIRST"}) {
    const char* v = getenv(var);
    if (v && *v) {
      size_t cls; unsigned T; unsigned long long rs;
      if (sscanf(v, "%zu %u %llu", &cls, &T, &rs) != 3 || cls >= kNFirst || T < 1 || T > 64) return 2;
      std::string keep(v);
      unsetenv(var);
      return var[11] == 'R' ? first_ref(cls, T, rs) : first_round(cls, T, rs);
    }
  }
  const char* only = getenv("VERIF_ONLY");
  if (only && *only) {
    unsigned T; unsigned long long rs;
    if (sscanf(only, "%u %llu", &T, &rs) == 2) return run_round(T, rs) ? 0 : 1;
  }
  vh::Rng master(seed * 1717 + 17);
  bool ok = true;
  // first-use rounds: fresh processes, before this process has executed anything
  {
    vh::Rng fm(seed * 7177 + 71);
    unsigned reps = (unsigned)vh::env_u64("VERIF_FIRST_REPS", vh::thorough() ? 4 : 1);
    for (unsigned r = 0; r < reps; r++)
      for (size_t cls = 0; cls < kNFirst; cls++) {
        unsigned pairs = (unsigned)kFirst[cls].cfgs.size() + (r % 2);       // every type of the class has a pair
        ok &= spawn_first(cls, 2 * pairs + (r >= 2 ? 1 : 0), fm.next() >> 16);
      }
  }
  if (vh::env_u64("VERIF_FIRSTONLY", 0)) return ok ? 0 : 1;     // (the unsanitised build runs the first-use rounds only)
  std::vector<unsigned> Ts;
  if (vh::thorough()) for (unsigned t = 2; t <= 16; t++) Ts.push_back(t);
  else Ts = {2, 3, 4, 6, 8, 12, 16};
  unsigned rounds = vh::thorough() ? 6 : 2;
  for (unsigned T : Ts)
    for (unsigned r = 0; r < rounds; r++) ok &= run_round(T, master.next() >> 16);
  return ok ? 0 : 1;
}
