// C17 runtime part: real thread schedules observed under ThreadSanitizer.
//
// Built with -fsanitize=thread (TSan cannot be combined with ASan).  Static initialisation (transform tables, CRT
// constants, permutation tables) happens before main; threads are started afterwards.  For T = 2…16 threads, every
// thread runs a seeded mixed sequence of arithmetic API operations on objects that are PRIVATE to it (poly and
// poly_p, several configurations incl. degree 2048 where the bit-reversal uses the static table permut<>::P).
// The same sequences are first run one after the other on the main thread; the per-thread digests must be equal.
// TSan flags a conflicting access pair whatever the actual timing (happens-before detector); every report is
// counted through __tsan_on_report and also makes the process exit with 66.
//
// Output (one line per round):   conc17 <threads> <round-seed> <opcount> => <digests-equal 0|1> <tsan-reports>
// Replay of one round:           VERIF_ONLY="<threads> <round-seed>" ./conc17   (same VERIF_SEED / VERIF_TIER)
#include <atomic>
#include <sstream>
#include <thread>
#include <nfl.hpp>
#include "common.hpp"

static std::atomic<int> g_reports{0};
extern "C" void __tsan_on_report(void*) { g_reports.fetch_add(1, std::memory_order_relaxed); }

struct Digest {
  uint64_t h = 0xcbf29ce484222325ULL;
  void add(uint64_t v) { h ^= v; h *= 0x100000001b3ULL; h ^= h >> 29; }
  void bytes(const void* p, size_t n) { const unsigned char* c = (const unsigned char*)p; for (size_t i = 0; i < n; i++) add(c[i]); }
};

template <class P> static void fold(Digest& d, P const& p) {
  for (auto v : p) d.add((uint64_t)v);
}

// A seeded mixed op sequence on private poly objects.
template <class T, size_t D, size_t M>
static uint64_t work_poly(uint64_t seed, unsigned nops) {
  using P = nfl::poly<T, D, M>;
  vh::Rng rng(seed);
  Digest dg;
  // heap objects (32-byte aligned by operator new of the over-aligned type), private to this call
  std::unique_ptr<P> a(new P), b(new P), c(new P), s(new P);
  std::vector<T> vals(D);
  auto fill = [&](P& p) {
    for (auto& v : vals) v = (T)rng.next();
    p.set(vals.begin(), vals.end());
  };
  fill(*a); fill(*b);
  std::array<mpz_t, D> arr;
  for (size_t i = 0; i < D; i++) mpz_init(arr[i]);
  for (unsigned k = 0; k < nops; k++) {
    switch (rng.below(14)) {
      case 0: fill(*a); break;
      case 1: { P t{(T)rng.next(), (T)rng.next(), (T)rng.next()}; *b = t; break; }
      case 2: a->ntt_pow_phi(); break;
      case 3: a->invntt_pow_invphi(); break;
      case 4: *c = *a + *b; break;
      case 5: *c = *a - *b; break;
      case 6: *c = *a * *b; break;
      case 7: *s = nfl::compute_shoup(*b); *c = nfl::shoup(*a * *b, *s); break;
      case 8: dg.add((*a == *b) ? 1 : 2); dg.add((*a != *c) ? 3 : 4); dg.add((*c == *c) ? 5 : 6); break;
      case 9: {
        a->poly2mpz(arr);
        for (size_t i = 0; i < D; i += (D > 64 ? 17 : 1)) dg.add(mpz_fdiv_ui(arr[i], 0xfffffffbUL));
        c->mpz2poly(arr);
        break;
      }
      case 10: {
        mpz_class z((unsigned long)rng.next());
        z = z * z * z + 12345;
        b->set_mpz(z);
        break;
      }
      case 11: {
        std::stringstream ss;
        a->serialize_manually(ss);
        c->deserialize_manually(ss);
        break;
      }
      case 12: {
        std::ostringstream os;
        os << *b;
        std::string str = os.str();
        dg.bytes(str.data(), str.size());
        break;
      }
      case 13: { *c = *a * *b + *a - *b; dg.add((bool)*c); break; }
    }
    fold(dg, *a); fold(dg, *b); fold(dg, *c);
  }
  for (size_t i = 0; i < D; i++) mpz_clear(arr[i]);
  return dg.h;
}

template <class X> static X const& cref(X& x) { return x; }  // poly_p's generic operator=(O&&) would swallow a non-const handle

// The same on copy-on-write handles (private handles; payloads are shared only between handles of this thread).
template <class T, size_t D, size_t M>
static uint64_t work_polyp(uint64_t seed, unsigned nops) {
  using PP = nfl::poly_p<T, D, M>;
  vh::Rng rng(seed);
  Digest dg;
  std::vector<T> vals(D);
  auto mk = [&]() {
    for (auto& v : vals) v = (T)rng.next();
    return PP(vals.begin(), vals.end());
  };
  PP a = mk(), b = mk(), c;
  std::array<mpz_t, D> arr;
  for (size_t i = 0; i < D; i++) mpz_init(arr[i]);
  for (unsigned k = 0; k < nops; k++) {
    switch (rng.below(11)) {
      case 0: a = mk(); break;
      case 1: { PP t(a); c = cref(t); break; }                      // handle copies
      case 2: { PP t(a); t(rng.below(M), rng.below(D)) = 1; dg.add(t == a ? 1 : 2); c = cref(t); break; }  // copy-on-write
      case 3: a.ntt_pow_phi(); break;
      case 4: a.invntt_pow_invphi(); break;
      case 5: c = a + b; break;
      case 6: c = a * b - a; break;
      case 7: dg.add((a == b) ? 1 : 2); dg.add((a != c) ? 3 : 4); break;
      case 8: {
        a.poly2mpz(arr);
        for (size_t i = 0; i < D; i += (D > 64 ? 17 : 1)) dg.add(mpz_fdiv_ui(arr[i], 0xfffffffbUL));
        c.mpz2poly(arr);
        break;
      }
      case 9: {
        std::stringstream ss;
        a.serialize_manually(ss);
        c.deserialize_manually(ss);
        break;
      }
      case 10: { PP t(b); b = cref(a); a = cref(t); break; }                // swap handles
    }
    fold(dg, cref(a).poly_obj()); fold(dg, cref(b).poly_obj()); fold(dg, cref(c).poly_obj());  // const access: no detach
  }
  for (size_t i = 0; i < D; i++) mpz_clear(arr[i]);
  return dg.h;
}

typedef uint64_t (*WorkFn)(uint64_t, unsigned);
struct Cfg { const char* name; WorkFn fn; unsigned ops_quick, ops_thorough; };
static const Cfg kCfgs[] = {
    {"poly<u32,64,2>", work_poly<uint32_t, 64, 2>, 800, 4000},
    {"poly<u64,256,3>", work_poly<uint64_t, 256, 3>, 250, 1200},
    {"poly<u16,64,1>", work_poly<uint16_t, 64, 1>, 800, 4000},
    {"poly<u64,2048,1>", work_poly<uint64_t, 2048, 1>, 60, 300},
    {"poly_p<u32,64,2>", work_polyp<uint32_t, 64, 2>, 800, 4000},
    {"poly_p<u64,256,3>", work_polyp<uint64_t, 256, 3>, 250, 1200},
    {"poly_p<u32,2048,1>", work_polyp<uint32_t, 2048, 1>, 60, 300},
};
static const size_t kNCfg = sizeof(kCfgs) / sizeof(kCfgs[0]);

struct Task { size_t cfg; uint64_t seed; unsigned nops; uint64_t seq = 0, conc = 0; };

static bool run_round(unsigned T, uint64_t round_seed) {
  vh::Rng rng(round_seed);
  std::vector<Task> tasks(T);
  unsigned opcount = 0;
  size_t rot = rng.below(kNCfg);
  for (unsigned i = 0; i < T; i++) {
    tasks[i].cfg = (rot + i) % kNCfg;   // neighbours use different configurations AND (T > kNCfg) the same one
    tasks[i].seed = rng.next();
    tasks[i].nops = vh::thorough() ? kCfgs[tasks[i].cfg].ops_thorough : kCfgs[tasks[i].cfg].ops_quick;
    opcount += tasks[i].nops;
  }
  if (T >= 2 && rng.below(2)) tasks[1].cfg = tasks[0].cfg, tasks[1].nops = tasks[0].nops;  // two threads on the same statics
  int rep0 = g_reports.load();
  for (auto& t : tasks) t.seq = kCfgs[t.cfg].fn(t.seed, t.nops);   // sequential reference
  std::atomic<unsigned> ready{0};
  std::atomic<bool> go{false};
  std::vector<std::thread> th;
  for (unsigned i = 0; i < T; i++)
    th.emplace_back([&, i] {
      ready.fetch_add(1);
      while (!go.load(std::memory_order_acquire)) std::this_thread::yield();
      tasks[i].conc = kCfgs[tasks[i].cfg].fn(tasks[i].seed, tasks[i].nops);
    });
  while (ready.load() < T) std::this_thread::yield();
  go.store(true, std::memory_order_release);
  for (auto& t : th) t.join();
  bool eq = true;
  for (unsigned i = 0; i < T; i++)
    if (tasks[i].seq != tasks[i].conc) {
      eq = false;
      fprintf(stderr, "conc17: thread %u (%s, seed %llu): sequential digest %016llx, concurrent digest %016llx\n", i,
              kCfgs[tasks[i].cfg].name, (unsigned long long)tasks[i].seed, (unsigned long long)tasks[i].seq,
              (unsigned long long)tasks[i].conc);
    }
  int reps = g_reports.load() - rep0;
  printf("conc17 %u %llu %u => %d %d\n", T, (unsigned long long)round_seed, opcount, eq ? 1 : 0, reps);
  fflush(stdout);
  return eq && reps == 0;
}

int main() {
  uint64_t seed = vh::env_u64("VERIF_SEED", 1);
  const char* only = getenv("VERIF_ONLY");
  if (only && *only) {
    unsigned T; unsigned long long rs;
    if (sscanf(only, "%u %llu", &T, &rs) == 2) return run_round(T, rs) ? 0 : 1;
  }
  vh::Rng master(seed * 1717 + 17);
  std::vector<unsigned> Ts;
  if (vh::thorough()) for (unsigned t = 2; t <= 16; t++) Ts.push_back(t);
  else Ts = {2, 3, 4, 6, 8, 12, 16};
  unsigned rounds = vh::thorough() ? 6 : 2;
  bool ok = true;
  for (unsigned T : Ts)
    for (unsigned r = 0; r < rounds; r++) ok &= run_round(T, master.next() >> 16);
  return ok ? 0 : 1;
}
