// C18 runtime part: real thread schedules of nfl::fastrandombytes observed under ThreadSanitizer.
//
// Linked with /repo's lib/prng/fastrandombytes.cpp + the Salsa20 assembly, and with a harness-provided
// nfl::randombytes (fixed key derived from VERIF_SEED; counts its calls) instead of lib/prng/randombytes.cpp.
//
// Phase 1 (keystream accounting).  T threads are released together by a barrier BEFORE ANY request has been made
//   in the process (the very first request – key initialisation – races with the others); each makes R requests of
//   mixed lengths (8, 1, 64, 100, 1000, …).  Afterwards every returned block is identified among the reference
//   keystreams of nonces 0…N+15 computed by a portable C Salsa20/20 in this file (cross-checked against the assembly
//   called directly).  Short blocks can match several nonces; a maximum bipartite matching assigns distinct nonces
//   where possible.  Line:
//       conc18 <T> <n0=0> <N> => <randombytes-calls> <tsan-reports> (<thread> <nonce> <unique 0|1>)*N
//   in per-thread program order (nonce = 2^64-1 if a block matches no reference keystream).  The Lean driver checks
//   that the nonces are exactly n0…n0+N-1 each once, that uniquely identified nonces increase along each thread, one
//   seeding, no report.
// Phase 2 (samplers).  ONE FastGaussianNoise object shared by threads calling getNoise, while other threads sample
//   polynomials (uniform, ZO, hwt, bounded, gaussian through the shared object).  TSan must stay silent:
//       conc18s <T> <iterations> => <range-ok 0|1> <tsan-reports>
// Boundary mode (VERIF_BOUNDARY="<bit>:<reps>,…"; position in the process's history).  The nonce is a 64-bit counter of
//   the requests made so far; an implementation may keep it in pieces (bytes, a ticket and an epoch, two 32-bit
//   words, …), and then the requests that straddle a CARRY between the pieces are the ones at risk.  For every listed
//   bit b and repetition: the main thread advances the generator with COUNTED silent requests (lengths 0 and 1) to
//   just below the next multiple of 2^b (N0 = k·2^b − d, 1 ≤ d < N), makes one probe request (must be nonce N0−1: the
//   count is right), then releases T threads whose N = T·R requests straddle the boundary.  Every block is identified
//   among the reference keystreams of the nonce window [N0−1−δ, N0+N+δ] and of the same window shifted by ±2^b (a lost
//   or doubled carry) and the history (probe + burst) must use exactly N0−1 … N0+N−1, each once.  Line:
//       conc18b <T> <n0=N0−1> <N+1> <bit> <whitebox 0|1> => <randombytes-calls> <tsan-reports> (<thread> <nonce> <unique>)*(N+1)
//   Black box: the advance is really performed (practical up to 2^24 ≈ 17 M requests per boundary, natively 0.3 s).
//   White box (-DFRB_WHITEBOX: the repository's fastrandombytes.cpp is #included, as in harness/salsa.cpp): gaps
//   above 2^16 are jumped by presetting the static `nonce` (a reachable state), which reaches 2^32 … 2^56 and the
//   wrap 2^64.  If the repository's file has no such static any more this build does not compile and only the
//   black-box boundaries remain.
// First-request family (VERIF_FIRST="<mode>:<stagger-us>", VERIF_SLOWSEED="<pre-us>:<chunk>:<gap-us>"; one FRESH process
//   per run, several per check; built without a sanitizer = real speed).  The START of the process's history under
//   concurrency: no request has been made, `init` is 0, the static key array is all zero, and the entropy source is
//   SLOW: the harness's nfl::randombytes waits <pre-us> before it writes anything, then delivers the 32 key bytes in
//   pieces of <chunk> bytes with <gap-us> between the pieces (a blocking /dev/random, short reads: C19's subject) -
//   the library is not changed, only the time its seeding call takes.  T threads make their FIRST requests
//       mode 0 barrier (released together)      mode 1 linear stagger (thread i starts i*stagger after thread 0)
//       mode 2 one leader, the others together one stagger later      mode 3 random delays in [0, T*stagger]
//       mode 4 no barrier: every thread starts as soon as it has been created
//   so that first requests arrive before, during (nothing written / some pieces written) and after the seeding call.
//   EVERY returned buffer is then identified: it must be the Salsa20 keystream of a nonce of {0..N-1} under the key
//   that randombytes delivered (g_key: the harness knows it).  A buffer that is not is searched among the keystreams
//   of the 32 PARTIALLY WRITTEN keys (first p bytes of the process key, the rest zero; p = 0 is the ALL-ZERO key of
//   the static array).  One line per request, checked by the Lean driver against the executable Salsa20 specification
//   (Spec/Salsa20.lean: stream key (LE64 nonce) len):
//       conc18k <T> <mode> <stagger> <pre> <chunk> <gap> <thread> <request> <nonce | -1> <keyclass> <len> <key[32]> => <bytes>
//   keyclass 0 = the process key, 1+p = the key with only its first p bytes written, 99 = no (key, nonce) found;
//   then the history line   conc18f <T> <mode> <stagger> <pre> <chunk> <gap> <N> => <as conc18>.
// Environment: VERIF_SEED, VERIF_THREADS (T), VERIF_REQS (R per thread), VERIF_TIER, VERIF_BOUNDARY, VERIF_FIRST, VERIF_SLOWSEED.
#include <atomic>
#include <chrono>
#include <thread>
#include <unistd.h>
#include <algorithm>
#include <unordered_map>
#include <nfl.hpp>
#include "nfl/prng/crypto_stream_salsa20.h"
#include "common.hpp"

static std::atomic<int> g_reports{0};
extern "C" void __tsan_on_report(void*) { g_reports.fetch_add(1, std::memory_order_relaxed); }

static unsigned char g_key[32];
static std::atomic<int> g_seed_calls{0};

// slow entropy source (first-request family): nothing is written for g_slow_pre microseconds, then the bytes arrive
// in pieces of g_slow_chunk bytes, g_slow_gap microseconds apart.  All zero = immediate delivery (every other mode).
static unsigned g_slow_pre = 0, g_slow_chunk = 0, g_slow_gap = 0;
static void pause_us(unsigned us) {
  if (!us) return;
  if (us >= 200) { usleep(us); return; }
  auto t1 = std::chrono::steady_clock::now() + std::chrono::microseconds(us);
  while (std::chrono::steady_clock::now() < t1) std::this_thread::yield();
}

namespace nfl {
// replaces lib/prng/randombytes.cpp: fixed key, call counter, controllable duration
void randombytes(unsigned char* x, unsigned long long n) {
  g_seed_calls.fetch_add(1);
  pause_us(g_slow_pre);
  const unsigned long long chunk = g_slow_chunk ? g_slow_chunk : n;
  for (unsigned long long i = 0; i < n; i++) {
    if (i && i % chunk == 0) pause_us(g_slow_gap);
    ((volatile unsigned char*)x)[i] = g_key[i % 32];
  }
}
}  // namespace nfl
#ifdef FRB_WHITEBOX
#include "fastrandombytes.cpp"  // the repository's file (found through -I<repo>/lib/prng): nfl::nonce can be preset
#define WB 1
#else
#define WB 0
#endif

// ---- portable Salsa20/20 stream (D. J. Bernstein's reference construction): key 32 bytes, nonce 8 bytes,
// ---- 64-bit little-endian block counter in input words 8,9
#define NOTSAN __attribute__((no_sanitize("thread")))
static inline uint32_t rotl(uint32_t v, int c) { return (v << c) | (v >> (32 - c)); }
static inline uint32_t ld32(const unsigned char* p) { return p[0] | (p[1] << 8) | (p[2] << 16) | ((uint32_t)p[3] << 24); }
static inline void st32(unsigned char* p, uint32_t v) { p[0] = v; p[1] = v >> 8; p[2] = v >> 16; p[3] = v >> 24; }
NOTSAN static void salsa20_block(unsigned char out[64], const unsigned char nonce[8], uint64_t ctr, const unsigned char k[32]) {
  static const unsigned char sigma[17] = "expand 32-byte k";
  uint32_t in[16], x[16];
  in[0] = ld32(sigma); in[5] = ld32(sigma + 4); in[10] = ld32(sigma + 8); in[15] = ld32(sigma + 12);
  for (int i = 0; i < 4; i++) { in[1 + i] = ld32(k + 4 * i); in[11 + i] = ld32(k + 16 + 4 * i); }
  in[6] = ld32(nonce); in[7] = ld32(nonce + 4);
  in[8] = (uint32_t)ctr; in[9] = (uint32_t)(ctr >> 32);
  for (int i = 0; i < 16; i++) x[i] = in[i];
  for (int r = 0; r < 10; r++) {
    x[4] ^= rotl(x[0] + x[12], 7);   x[8] ^= rotl(x[4] + x[0], 9);    x[12] ^= rotl(x[8] + x[4], 13);   x[0] ^= rotl(x[12] + x[8], 18);
    x[9] ^= rotl(x[5] + x[1], 7);    x[13] ^= rotl(x[9] + x[5], 9);   x[1] ^= rotl(x[13] + x[9], 13);   x[5] ^= rotl(x[1] + x[13], 18);
    x[14] ^= rotl(x[10] + x[6], 7);  x[2] ^= rotl(x[14] + x[10], 9);  x[6] ^= rotl(x[2] + x[14], 13);   x[10] ^= rotl(x[6] + x[2], 18);
    x[3] ^= rotl(x[15] + x[11], 7);  x[7] ^= rotl(x[3] + x[15], 9);   x[11] ^= rotl(x[7] + x[3], 13);   x[15] ^= rotl(x[11] + x[7], 18);
    x[1] ^= rotl(x[0] + x[3], 7);    x[2] ^= rotl(x[1] + x[0], 9);    x[3] ^= rotl(x[2] + x[1], 13);    x[0] ^= rotl(x[3] + x[2], 18);
    x[6] ^= rotl(x[5] + x[4], 7);    x[7] ^= rotl(x[6] + x[5], 9);    x[4] ^= rotl(x[7] + x[6], 13);    x[5] ^= rotl(x[4] + x[7], 18);
    x[11] ^= rotl(x[10] + x[9], 7);  x[8] ^= rotl(x[11] + x[10], 9);  x[9] ^= rotl(x[8] + x[11], 13);   x[10] ^= rotl(x[9] + x[8], 18);
    x[12] ^= rotl(x[15] + x[14], 7); x[13] ^= rotl(x[12] + x[15], 9); x[14] ^= rotl(x[13] + x[12], 13); x[15] ^= rotl(x[14] + x[13], 18);
  }
  for (int i = 0; i < 16; i++) st32(out + 4 * i, x[i] + in[i]);
}
static size_t kRefLen = 1024;  // >= the longest request (a multiple of 64)
NOTSAN static void salsa20_stream(unsigned char* out, uint64_t nonce_val, const unsigned char k[32]) {
  unsigned char n[8];
  for (int i = 0; i < 8; i++) n[i] = (nonce_val >> (8 * i)) & 0xff;
  for (uint64_t b = 0; b < kRefLen / 64; b++) salsa20_block(out + 64 * b, n, b, k);
}

NOTSAN static void salsa20_stream_len(unsigned char* out, size_t len, uint64_t nonce_val, const unsigned char k[32]) {
  unsigned char n[8], blk[64];
  for (int i = 0; i < 8; i++) n[i] = (nonce_val >> (8 * i)) & 0xff;
  for (size_t b = 0; 64 * b < len; b++) { salsa20_block(blk, n, b, k); memcpy(out + 64 * b, blk, len - 64 * b < 64 ? len - 64 * b : 64); }
}

// first-request family: how the threads start and how slowly the key arrives (see the head of the file)
struct FirstCfg { unsigned mode = 0, stagger = 0; std::vector<uint64_t> delay_us; };

struct Req { unsigned len = 0; std::vector<unsigned char> data; std::vector<uint32_t> cand; int64_t nonce = -1; uint64_t nonce_val = 0; };

// augmenting-path bipartite matching (requests with several candidates)
static bool augment(size_t r, std::vector<Req*>& reqs, std::vector<int64_t>& owner, std::vector<char>& seen) {
  for (uint32_t k : reqs[r]->cand) {
    if (seen[k]) continue;
    seen[k] = 1;
    if (owner[k] < 0 || augment((size_t)owner[k], reqs, owner, seen)) { owner[k] = (int64_t)r; return true; }
  }
  return false;
}

// One burst: T threads released together, R requests each (lengths from `lens`).  `n0`/`N`: the history must use the
// nonces n0 … n0+N-1 (mod 2^64); `pre` = requests already made by the main thread that belong to the history (the
// probe of the boundary mode; thread index T).  `refNonce` = the nonces whose reference keystreams are computed.
static int burst(const std::string& lhs, unsigned T, unsigned R, uint64_t seed, uint64_t n0, const std::vector<unsigned>& lens,
                 bool first_fixed, std::vector<Req> pre, const std::vector<uint64_t>& refNonce, const FirstCfg* fc = nullptr) {
  std::vector<std::vector<Req>> per(T + 1);
  for (unsigned i = 0; i < T; i++) {
    vh::Rng rng(seed * 7919 + i);
    per[i].resize(R);
    for (auto& q : per[i]) { q.len = lens[rng.below(lens.size())]; q.data.assign(q.len, 0); }
    if (R && first_fixed) per[i][0].len = (i % 2) ? 8 : 64, per[i][0].data.assign(per[i][0].len, 0);  // first requests: identifiable
  }
  per[T] = std::move(pre);
  std::atomic<unsigned> ready{0};
  std::atomic<bool> go{false};
  std::chrono::steady_clock::time_point t_go;
  const bool spawn = fc && fc->mode == 4;      // no barrier: a thread starts as soon as it exists
  if (spawn) go.store(true);
  std::vector<std::thread> th;
  for (unsigned i = 0; i < T; i++)
    th.emplace_back([&, i] {
      ready.fetch_add(1);
      while (!go.load(std::memory_order_acquire)) {}   // spin: all threads hit the generator at the same moment
      if (fc && !spawn && fc->delay_us[i]) {           // … or at chosen distances from that moment
        auto t1 = t_go + std::chrono::microseconds(fc->delay_us[i]);
        while (std::chrono::steady_clock::now() < t1) {}
      }
      for (auto& q : per[i]) nfl::fastrandombytes(q.data.data(), q.len);
    });
  if (!spawn) {
    while (ready.load() < T) std::this_thread::yield();
    t_go = std::chrono::steady_clock::now();
    go.store(true, std::memory_order_release);   // (phase 1: no request has been made in this process so far)
  }
  for (auto& t : th) t.join();

  // ---- identification
  const size_t N = (size_t)T * R + per[T].size(), K = refNonce.size();
  auto in_window = [&](uint64_t nonce) { return (uint64_t)(nonce - n0) < (uint64_t)N; };
  std::vector<unsigned char> ref(K * kRefLen);
  for (size_t k = 0; k < K; k++) salsa20_stream(&ref[k * kRefLen], refNonce[k], g_key);
  // the portable reference agrees with the assembly (called directly with explicit nonces; touches no generator state)
  for (size_t k : {(size_t)0, (size_t)1, K - 1}) {
    std::vector<unsigned char> buf(kRefLen);
    unsigned char n[8];
    for (int i = 0; i < 8; i++) n[i] = (refNonce[k] >> (8 * i)) & 0xff;
    nfl_crypto_stream_salsa20_amd64_xmm6(buf.data(), kRefLen, n, g_key);
    if (memcmp(buf.data(), &ref[k * kRefLen], kRefLen)) { fprintf(stderr, "conc18: portable Salsa20 reference disagrees with the assembly at nonce %llu\n", (unsigned long long)refNonce[k]); return 3; }
  }
  std::unordered_map<uint64_t, std::vector<uint32_t>> by8;
  for (size_t k = 0; k < K; k++) { uint64_t h; memcpy(&h, &ref[k * kRefLen], 8); by8[h].push_back((uint32_t)k); }
  std::vector<Req*> all;
  for (auto& v : per) for (auto& q : v) all.push_back(&q);
  for (Req* q : all) {
    if (q->len >= 8) {
      uint64_t h; memcpy(&h, q->data.data(), 8);
      auto it = by8.find(h);
      if (it != by8.end())
        for (uint32_t k : it->second) if (!memcmp(&ref[k * kRefLen], q->data.data(), q->len)) q->cand.push_back(k);
    } else {
      for (size_t k = 0; k < K; k++) if (!memcmp(&ref[k * kRefLen], q->data.data(), q->len)) q->cand.push_back((uint32_t)k);
    }
  }
  // The property says the nonces are n0…n0+N-1.  The spare reference streams only serve to recognise blocks of a
  // defective run; a block that also matches a nonce of the window is never assigned a spare one.
  for (Req* q : all) {
    std::vector<uint32_t> lo;
    for (uint32_t k : q->cand) if (in_window(refNonce[k])) lo.push_back(k);
    if (!lo.empty()) q->cand.swap(lo);
  }
  std::vector<int64_t> owner(K, -1);
  std::vector<int64_t> idx(all.size(), -1);      // request -> reference index
  size_t unidentified = 0, dup = 0, unmatched = 0, outside = 0;
  // uniquely identified blocks first: two of them on one nonce = keystream reuse
  for (size_t r = 0; r < all.size(); r++) {
    Req* q = all[r];
    if (q->cand.empty()) { unidentified++; continue; }
    if (q->cand.size() == 1) {
      uint32_t k = q->cand[0];
      idx[r] = k;
      if (owner[k] >= 0) dup++; else owner[k] = (int64_t)r;
    }
  }
  for (size_t r = 0; r < all.size(); r++) {
    Req* q = all[r];
    if (q->cand.size() < 2) continue;
    std::vector<char> seen(K, 0);
    // uniquely owned nonces are not reassignable (their owners have a single candidate), augment() handles that
    if (!augment(r, all, owner, seen)) { unmatched++; idx[r] = q->cand[0]; }
  }
  for (size_t k = 0; k < K; k++) if (owner[k] >= 0 && all[(size_t)owner[k]]->cand.size() >= 2) idx[(size_t)owner[k]] = (int64_t)k;
  for (size_t r = 0; r < all.size(); r++) {
    all[r]->nonce = idx[r] < 0 ? -1 : 0;
    all[r]->nonce_val = idx[r] < 0 ? 18446744073709551615ULL : refNonce[(size_t)idx[r]];
  }
  size_t wrongkey = 0;
  if (fc) {
    // every buffer against the key randombytes delivered; the unidentified ones against the partially written keys
    const uint64_t NN = N + 16;
    std::vector<unsigned char> tmp(kRefLen);
    size_t r = 0;
    for (unsigned i = 0; i <= T; i++)
      for (unsigned j = 0; j < per[i].size(); j++, r++) {
        Req& q = per[i][j];
        long long nonce = idx[r] < 0 ? -1 : (long long)refNonce[(size_t)idx[r]];
        int kclass = idx[r] < 0 ? 99 : 0;
        for (unsigned p = 0; kclass == 99 && p < 32; p++) {
          unsigned char k2[32] = {0};
          memcpy(k2, g_key, p);
          for (uint64_t n = 0; n < NN; n++) {
            salsa20_stream_len(tmp.data(), q.len < 64 ? q.len : 64, n, k2);
            if (memcmp(tmp.data(), q.data.data(), q.len < 64 ? q.len : 64)) continue;
            salsa20_stream_len(tmp.data(), q.len, n, k2);
            if (memcmp(tmp.data(), q.data.data(), q.len)) continue;
            kclass = 1 + (int)p; nonce = (long long)n;
            break;
          }
        }
        if (kclass) {
          if (wrongkey++ < 4) {
            char hex[3 * 16 + 1] = "";
            for (unsigned b = 0; b < q.len && b < 16; b++) snprintf(hex + 3 * b, 4, "%02x ", q.data[b]);
            if (kclass == 99)
              fprintf(stderr, "conc18: first-request run (T=%u mode=%u stagger=%uus seeding pre=%uus chunk=%u gap=%uus): thread %u request %u (%u bytes: %s…) is the keystream of NO nonce 0..%llu under the process key, the all-zero key or a partially written key\n",
                      T, fc->mode, fc->stagger, g_slow_pre, g_slow_chunk, g_slow_gap, i, j, q.len, hex, (unsigned long long)NN - 1);
            else
              fprintf(stderr, "conc18: first-request run (T=%u mode=%u stagger=%uus seeding pre=%uus chunk=%u gap=%uus): thread %u request %u (%u bytes: %s…) is the keystream of nonce %lld under %s, not under the process key\n",
                      T, fc->mode, fc->stagger, g_slow_pre, g_slow_chunk, g_slow_gap, i, j, q.len, hex, nonce,
                      kclass == 1 ? "the ALL-ZERO key (the static key array before randombytes has written it)"
                                  : (std::string("a PARTIALLY WRITTEN key (first ") + std::to_string(kclass - 1) + " bytes of the process key, the rest zero)").c_str());
          }
        }
        printf("conc18k %u %u %u %u %u %u %u %u %lld %d %u", T, fc->mode, fc->stagger, g_slow_pre, g_slow_chunk, g_slow_gap, i, j, nonce, kclass, q.len);
        for (int b = 0; b < 32; b++) printf(" %u", g_key[b]);
        printf(" =>");
        for (unsigned b = 0; b < q.len; b++) printf(" %u", q.data[b]);
        printf("\n");
      }
  }
  printf("%s => %d %d", lhs.c_str(), g_seed_calls.load(), g_reports.load());
  // program order per thread; the main thread's probe (index T) precedes the burst
  for (unsigned ii = 0; ii <= T; ii++) {
    unsigned i = (ii + T) % (T + 1);
    for (auto& q : per[i]) printf(" %u %llu %d", i, (unsigned long long)q.nonce_val, q.cand.size() == 1 ? 1 : 0);
  }
  printf("\n");
  fflush(stdout);
  {  // name the first reused / foreign nonces (uniquely identified blocks only) for the replay file
    std::unordered_map<uint64_t, std::pair<unsigned, unsigned>> first;
    unsigned shown = 0;
    for (unsigned i = 0; i <= T; i++)
      for (unsigned j = 0; j < per[i].size(); j++) {
        Req& q = per[i][j];
        if (q.cand.size() != 1) continue;
        if (!in_window(q.nonce_val)) {
          outside++;
          if (shown < 5) {
            long long off = (long long)(q.nonce_val - n0);
            fprintf(stderr, "conc18: thread %u request %u (%u bytes) received the keystream of nonce %llu = n0%+lld, outside the window n0=%llu … n0+%zu of this history (a nonce of another epoch: reused or skipped)\n",
                    i, j, q.len, (unsigned long long)q.nonce_val, off, (unsigned long long)n0, N - 1);
            shown++;
          }
          continue;
        }
        auto it = first.find(q.nonce_val);
        if (it == first.end()) first[q.nonce_val] = {i, j};
        else if (shown < 5) {
          fprintf(stderr, "conc18: nonce %llu used twice: thread %u request %u (%u bytes) and thread %u request %u received the same keystream\n",
                  (unsigned long long)q.nonce_val, it->second.first, it->second.second, q.len, i, j);
          shown++;
        }
      }
  }
  if (g_seed_calls.load() != 1) fprintf(stderr, "conc18: randombytes (key seeding) was called %d times\n", g_seed_calls.load());
  if (unidentified || dup || unmatched || outside)
    fprintf(stderr, "conc18: %s (T=%u R=%u seed=%llu): %zu blocks match no reference keystream, %zu uniquely identified blocks reuse a nonce, %zu blocks carry a nonce outside the window, %zu short blocks left without a distinct nonce\n",
            lhs.c_str(), T, R, (unsigned long long)seed, unidentified, dup, outside, unmatched);
  return (unidentified || dup || unmatched || outside || g_seed_calls.load() != 1) ? 1 : 0;
}

static int phase1(unsigned T, unsigned R, uint64_t seed) {
  static const std::vector<unsigned> kLens = {8, 1, 64, 100, 1000, 8, 8, 3, 16, 65, 128, 2, 63};
  const size_t N = (size_t)T * R;
  std::vector<uint64_t> refs(N + 16);
  for (size_t k = 0; k < refs.size(); k++) refs[k] = k;
  char lhs[96];
  snprintf(lhs, sizeof lhs, "conc18 %u 0 %zu", T, N);
  return burst(lhs, T, R, seed, 0, kLens, true, {}, refs);
}

// ---- first-request family: see the head of the file
static int first_mode(unsigned T, unsigned R, uint64_t seed, const char* spec) {
  static const std::vector<unsigned> kLens = {8, 9, 64, 100, 1000, 8, 16, 3, 65, 128, 2, 63, 32, 1, 256, 511};
  FirstCfg fc;
  if (sscanf(spec, "%u:%u", &fc.mode, &fc.stagger) < 2 || fc.mode > 4) { fprintf(stderr, "conc18: bad VERIF_FIRST\n"); return 2; }
  const char* sl = getenv("VERIF_SLOWSEED");
  if (sl && *sl && sscanf(sl, "%u:%u:%u", &g_slow_pre, &g_slow_chunk, &g_slow_gap) < 3) { fprintf(stderr, "conc18: bad VERIF_SLOWSEED\n"); return 2; }
  vh::Rng rng(seed * 4177 + 5);
  fc.delay_us.assign(T, 0);
  for (unsigned i = 0; i < T; i++) {
    switch (fc.mode) {
      case 1: fc.delay_us[i] = (uint64_t)i * fc.stagger; break;
      case 2: fc.delay_us[i] = i ? fc.stagger : 0; break;
      case 3: fc.delay_us[i] = rng.below((uint64_t)T * fc.stagger + 1); break;
      default: break;
    }
  }
  if (fc.mode == 1 || fc.mode == 2) {     // any thread may be the early one
    unsigned rot = (unsigned)rng.below(T);
    std::rotate(fc.delay_us.begin(), fc.delay_us.begin() + rot, fc.delay_us.end());
  }
  const size_t N = (size_t)T * R;
  std::vector<uint64_t> refs(N + 16);
  for (size_t k = 0; k < refs.size(); k++) refs[k] = k;
  char lhs[160];
  snprintf(lhs, sizeof lhs, "conc18f %u %u %u %u %u %u %zu", T, fc.mode, fc.stagger, g_slow_pre, g_slow_chunk, g_slow_gap, N);
  return burst(lhs, T, R, seed, 0, kLens, true, {}, refs, &fc);
}

// ---- boundary mode: see the head of the file
static int boundary_mode(unsigned T, uint64_t seed, const char* spec) {
  static const std::vector<unsigned> kLens = {8, 16, 8, 32, 64, 8, 100, 128, 9};   // every block uniquely identifiable
  kRefLen = 128;
  unsigned R = (unsigned)vh::env_u64("VERIF_REQS", 40);
  vh::Rng rng(seed * 181 + 81);
  uint64_t issued = 0;   // requests made so far in this process = the value the 64-bit counter must have
  int rc = 0;
  std::vector<unsigned char> sink(8);
  const char* p = spec;
  while (*p) {
    unsigned bit = 0, reps = 1;
    int used = 0;
    if (sscanf(p, "%u:%u%n", &bit, &reps, &used) < 2 || bit < 2 || bit > 64) { fprintf(stderr, "conc18: bad VERIF_BOUNDARY\n"); return 2; }
    p += used;
    if (*p == ',') p++;
    for (unsigned rep = 0; rep < reps; rep++) {
      const uint64_t N = (uint64_t)T * R;
      const uint64_t B = bit == 64 ? 0 : (1ULL << bit);
      uint64_t d = 1 + T / 2 + rng.below(N - T);                 // 1 <= d < N: the burst straddles the boundary
      uint64_t target;                                           // a multiple of 2^bit with target - d - 1 >= issued
      if (bit == 64) target = 0;
      else target = ((issued + d + 1 + B - 1) / B) * B;
      uint64_t N0 = target - d;                                  // (mod 2^64)
      uint64_t gap = N0 - 1 - issued;                            // silent requests before the probe
      if (gap > (1ULL << 16)) {
#if WB
        for (int i = 0; i < 8; i++) nfl::nonce[i] = (unsigned char)((N0 - 1) >> (8 * i));   // state injection: a reachable value
        issued = N0 - 1;
        gap = 0;
#else
        if (gap > (1ULL << 26)) { printf("# boundary 2^%u not reachable by a black-box advance (%llu requests)\n", bit, (unsigned long long)gap); continue; }
#endif
      }
      for (uint64_t i = 0; i < gap; i++) nfl::fastrandombytes(sink.data(), (i & 15) == 7 ? 1 : 0);   // counted silent requests
      issued += gap;
      Req probe;
      probe.len = 16;
      probe.data.assign(16, 0);
      nfl::fastrandombytes(probe.data.data(), probe.len);        // must be nonce N0-1
      issued += 1;
      const uint64_t delta = 24;
      std::vector<uint64_t> refs;
      for (uint64_t k = 0; k < N + 1 + 2 * delta; k++) refs.push_back(N0 - 1 - delta + k);
      if (bit < 64) {
        size_t base = refs.size();
        for (size_t k = 0; k < base; k++) refs.push_back(refs[k] - B);   // a new ticket paired with the old epoch
        for (size_t k = 0; k < base; k++) refs.push_back(refs[k] + B);   // an old ticket paired with the new epoch
        if (bit > 8) for (size_t k = 0; k < base; k++) { refs.push_back(refs[k] - (B >> 8)); refs.push_back(refs[k] + (B >> 8)); }
      }
      {  // (for small bits the shifted windows overlap the window itself: every nonce once)
        std::vector<uint64_t> u;
        std::unordered_map<uint64_t, char> seen;
        for (uint64_t v : refs) if (!seen.count(v)) { seen[v] = 1; u.push_back(v); }
        refs.swap(u);
      }
      char lhs[128];
      snprintf(lhs, sizeof lhs, "conc18b %u %llu %llu %u %d", T, (unsigned long long)(N0 - 1), (unsigned long long)(N + 1), bit, WB);
      std::vector<Req> pre;
      pre.push_back(std::move(probe));
      int r = burst(lhs, T, R, seed * 31 + rep * 7 + bit, N0 - 1, kLens, false, std::move(pre), refs);
      if (r == 3) return 3;
      rc |= r;
      issued += N;
    }
  }
  return rc;
}

template <class P> static bool in_range(P const& p) {
  for (size_t cm = 0; cm < P::nmoduli; cm++)
    for (size_t i = 0; i < P::degree; i++)
      if (p(cm, i) >= P::get_modulus(cm)) return false;
  return true;
}

static int phase2(unsigned T, unsigned iters) {
  using P = nfl::poly<uint32_t, 64, 2>;
  using FG = nfl::FastGaussianNoise<uint8_t, uint32_t, 2>;
  FG* fg = new FG(20, 128, 1 << 10);   // built before the threads start; shared afterwards
  std::atomic<unsigned> ready{0};
  std::atomic<bool> go{false}, ok{true};
  std::vector<std::thread> th;
  int rep0 = g_reports.load();
  for (unsigned i = 0; i < T; i++)
    th.emplace_back([&, i] {
      ready.fetch_add(1);
      while (!go.load(std::memory_order_acquire)) std::this_thread::yield();
      std::unique_ptr<P> p(new P);
      uint32_t buf[256];
      for (unsigned k = 0; k < iters; k++) {
        switch ((i + k) % 6) {
          case 0: fg->getNoise(buf, 256); break;                                   // shared sampler object, direct
          case 1: *p = nfl::uniform(); break;
          case 2: *p = nfl::ZO_dist(); break;
          case 3: *p = nfl::hwt_dist(16); break;
          case 4: *p = nfl::non_uniform(100); break;
          case 5: *p = nfl::gaussian<uint8_t, uint32_t, 2>(fg); break;            // shared sampler object, through poly
        }
        if (!in_range(*p)) ok.store(false);
      }
    });
  while (ready.load() < T) std::this_thread::yield();
  go.store(true, std::memory_order_release);
  for (auto& t : th) t.join();
  delete fg;
  int reps = g_reports.load() - rep0;
  printf("conc18s %u %u => %d %d\n", T, iters, ok.load() ? 1 : 0, reps);
  fflush(stdout);
  return (ok.load() && reps == 0) ? 0 : 1;
}

int main() {
  uint64_t seed = vh::env_u64("VERIF_SEED", 1);
  unsigned T = (unsigned)vh::env_u64("VERIF_THREADS", 8);
  unsigned R = (unsigned)vh::env_u64("VERIF_REQS", vh::thorough() ? 800 : 300);
  vh::Rng kr(seed * 1818 + 18);
  for (auto& b : g_key) b = (unsigned char)kr.next();
  const char* bspec = getenv("VERIF_BOUNDARY");
  if (bspec && *bspec) return boundary_mode(T, seed, bspec);
  const char* fspec = getenv("VERIF_FIRST");
  if (fspec && *fspec) return first_mode(T, (unsigned)vh::env_u64("VERIF_REQS", 3), seed, fspec);
  int rc = phase1(T, R, seed);
  if (rc == 3) return 3;
  rc |= phase2(T < 4 ? 4 : T, vh::thorough() ? 600 : 120);
  return rc;
}
