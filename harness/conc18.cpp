// C18 runtime part: real thread schedules of nfl::fastrandombytes observed under ThreadSanitizer.
//
// Linked with /repo's lib/prng/fastrandombytes.cpp + the Salsa20 assembly, and with a harness-provided
// nfl::randombytes (fixed key derived from VERIF_SEED; counts its calls) instead of lib/prng/randombytes.cpp.
//
// Phase 1 (keystream accounting).  T threads are released together by a barrier BEFORE ANY request has been made
//   in the process (the very first request – key initialisation – races with the others); each makes R requests of
//   mixed lengths (8, 1, 64, 100, 1000, …).  Afterwards every returned block is identified among the reference
//   keystreams of nonces 0…N+15 computed by a portable C Salsa20/20 in this file (cross-checked against the assembly
//   called directly).  Short blocks can match several nonces; a maximum bipartite matching assigns distinct nonces
//   where possible.  Line:
//       conc18 <T> <n0=0> <N> => <randombytes-calls> <tsan-reports> (<thread> <nonce> <unique 0|1>)*N
//   in per-thread program order (nonce = 2^64-1 if a block matches no reference keystream).  The Lean driver checks
//   that the nonces are exactly n0…n0+N-1 each once, that uniquely identified nonces increase along each thread, one
//   seeding, no report.
// Phase 2 (samplers).  ONE FastGaussianNoise object shared by threads calling getNoise, while other threads sample
//   polynomials (uniform, ZO, hwt, bounded, gaussian through the shared object).  TSan must stay silent:
//       conc18s <T> <iterations> => <range-ok 0|1> <tsan-reports>
// Environment: VERIF_SEED, VERIF_THREADS (T), VERIF_REQS (R per thread), VERIF_TIER.
#include <atomic>
#include <thread>
#include <unordered_map>
#include <nfl.hpp>
#include "nfl/prng/crypto_stream_salsa20.h"
#include "common.hpp"

static std::atomic<int> g_reports{0};
extern "C" void __tsan_on_report(void*) { g_reports.fetch_add(1, std::memory_order_relaxed); }

static unsigned char g_key[32];
static std::atomic<int> g_seed_calls{0};

namespace nfl {
// replaces lib/prng/randombytes.cpp: fixed key, call counter
void randombytes(unsigned char* x, unsigned long long n) {
  g_seed_calls.fetch_add(1);
  for (unsigned long long i = 0; i < n; i++) x[i] = g_key[i % 32];
}
}  // namespace nfl

// ---- portable Salsa20/20 stream (D. J. Bernstein's reference construction): key 32 bytes, nonce 8 bytes,
// ---- 64-bit little-endian block counter in input words 8,9
#define NOTSAN __attribute__((no_sanitize("thread")))
static inline uint32_t rotl(uint32_t v, int c) { return (v << c) | (v >> (32 - c)); }
static inline uint32_t ld32(const unsigned char* p) { return p[0] | (p[1] << 8) | (p[2] << 16) | ((uint32_t)p[3] << 24); }
static inline void st32(unsigned char* p, uint32_t v) { p[0] = v; p[1] = v >> 8; p[2] = v >> 16; p[3] = v >> 24; }
NOTSAN static void salsa20_block(unsigned char out[64], const unsigned char nonce[8], uint64_t ctr, const unsigned char k[32]) {
  static const unsigned char sigma[17] = "expand 32-byte k";
  uint32_t in[16], x[16];
  in[0] = ld32(sigma); in[5] = ld32(sigma + 4); in[10] = ld32(sigma + 8); in[15] = ld32(sigma + 12);
  for (int i = 0; i < 4; i++) { in[1 + i] = ld32(k + 4 * i); in[11 + i] = ld32(k + 16 + 4 * i); }
  in[6] = ld32(nonce); in[7] = ld32(nonce + 4);
  in[8] = (uint32_t)ctr; in[9] = (uint32_t)(ctr >> 32);
  for (int i = 0; i < 16; i++) x[i] = in[i];
  for (int r = 0; r < 10; r++) {
    x[4] ^= rotl(x[0] + x[12], 7);   x[8] ^= rotl(x[4] + x[0], 9);    x[12] ^= rotl(x[8] + x[4], 13);   x[0] ^= rotl(x[12] + x[8], 18);
    x[9] ^= rotl(x[5] + x[1], 7);    x[13] ^= rotl(x[9] + x[5], 9);   x[1] ^= rotl(x[13] + x[9], 13);   x[5] ^= rotl(x[1] + x[13], 18);
    x[14] ^= rotl(x[10] + x[6], 7);  x[2] ^= rotl(x[14] + x[10], 9);  x[6] ^= rotl(x[2] + x[14], 13);   x[10] ^= rotl(x[6] + x[2], 18);
    x[3] ^= rotl(x[15] + x[11], 7);  x[7] ^= rotl(x[3] + x[15], 9);   x[11] ^= rotl(x[7] + x[3], 13);   x[15] ^= rotl(x[11] + x[7], 18);
    x[1] ^= rotl(x[0] + x[3], 7);    x[2] ^= rotl(x[1] + x[0], 9);    x[3] ^= rotl(x[2] + x[1], 13);    x[0] ^= rotl(x[3] + x[2], 18);
    x[6] ^= rotl(x[5] + x[4], 7);    x[7] ^= rotl(x[6] + x[5], 9);    x[4] ^= rotl(x[7] + x[6], 13);    x[5] ^= rotl(x[4] + x[7], 18);
    x[11] ^= rotl(x[10] + x[9], 7);  x[8] ^= rotl(x[11] + x[10], 9);  x[9] ^= rotl(x[8] + x[11], 13);   x[10] ^= rotl(x[9] + x[8], 18);
    x[12] ^= rotl(x[15] + x[14], 7); x[13] ^= rotl(x[12] + x[15], 9); x[14] ^= rotl(x[13] + x[12], 13); x[15] ^= rotl(x[14] + x[13], 18);
  }
  for (int i = 0; i < 16; i++) st32(out + 4 * i, x[i] + in[i]);
}
static const size_t kRefLen = 1024;  // >= the longest request
NOTSAN static void salsa20_stream(unsigned char* out, uint64_t nonce_val, const unsigned char k[32]) {
  unsigned char n[8];
  for (int i = 0; i < 8; i++) n[i] = (nonce_val >> (8 * i)) & 0xff;
  for (uint64_t b = 0; b < kRefLen / 64; b++) salsa20_block(out + 64 * b, n, b, k);
}

struct Req { unsigned len; std::vector<unsigned char> data; std::vector<uint32_t> cand; int64_t nonce = -1; };

// augmenting-path bipartite matching (requests with several candidates)
static bool augment(size_t r, std::vector<Req*>& reqs, std::vector<int64_t>& owner, std::vector<char>& seen) {
  for (uint32_t k : reqs[r]->cand) {
    if (seen[k]) continue;
    seen[k] = 1;
    if (owner[k] < 0 || augment((size_t)owner[k], reqs, owner, seen)) { owner[k] = (int64_t)r; return true; }
  }
  return false;
}

static int phase1(unsigned T, unsigned R, uint64_t seed) {
  static const unsigned kLens[] = {8, 1, 64, 100, 1000, 8, 8, 3, 16, 65, 128, 2, 63};
  std::vector<std::vector<Req>> per(T);
  for (unsigned i = 0; i < T; i++) {
    vh::Rng rng(seed * 7919 + i);
    per[i].resize(R);
    for (auto& q : per[i]) { q.len = kLens[rng.below(sizeof(kLens) / sizeof(kLens[0]))]; q.data.assign(q.len, 0); }
    if (R) per[i][0].len = (i % 2) ? 8 : 64, per[i][0].data.assign(per[i][0].len, 0);  // first requests: identifiable
  }
  std::atomic<unsigned> ready{0};
  std::atomic<bool> go{false};
  std::vector<std::thread> th;
  for (unsigned i = 0; i < T; i++)
    th.emplace_back([&, i] {
      ready.fetch_add(1);
      while (!go.load(std::memory_order_acquire)) {}   // spin: all threads hit the generator at the same moment
      for (auto& q : per[i]) nfl::fastrandombytes(q.data.data(), q.len);
    });
  while (ready.load() < T) std::this_thread::yield();
  go.store(true, std::memory_order_release);   // no request has been made in this process so far
  for (auto& t : th) t.join();

  // ---- identification
  const size_t N = (size_t)T * R, K = N + 16;
  std::vector<unsigned char> ref(K * kRefLen);
  for (size_t k = 0; k < K; k++) salsa20_stream(&ref[k * kRefLen], k, g_key);
  // the portable reference agrees with the assembly (called directly with explicit nonces; touches no generator state)
  for (uint64_t k : {(uint64_t)0, (uint64_t)1, (uint64_t)(K - 1)}) {
    unsigned char buf[kRefLen], n[8];
    for (int i = 0; i < 8; i++) n[i] = (k >> (8 * i)) & 0xff;
    nfl_crypto_stream_salsa20_amd64_xmm6(buf, kRefLen, n, g_key);
    if (memcmp(buf, &ref[k * kRefLen], kRefLen)) { fprintf(stderr, "conc18: portable Salsa20 reference disagrees with the assembly at nonce %llu\n", (unsigned long long)k); return 3; }
  }
  std::unordered_map<uint64_t, std::vector<uint32_t>> by8;
  for (size_t k = 0; k < K; k++) { uint64_t h; memcpy(&h, &ref[k * kRefLen], 8); by8[h].push_back((uint32_t)k); }
  std::vector<Req*> all;
  for (auto& v : per) for (auto& q : v) all.push_back(&q);
  for (Req* q : all) {
    if (q->len >= 8) {
      uint64_t h; memcpy(&h, q->data.data(), 8);
      auto it = by8.find(h);
      if (it != by8.end())
        for (uint32_t k : it->second) if (!memcmp(&ref[k * kRefLen], q->data.data(), q->len)) q->cand.push_back(k);
    } else {
      for (size_t k = 0; k < K; k++) if (!memcmp(&ref[k * kRefLen], q->data.data(), q->len)) q->cand.push_back((uint32_t)k);
    }
  }
  // The property says the nonces are 0…N-1.  The 16 spare reference streams only serve to recognise blocks of a
  // defective run; a block that also matches a nonce below N is never assigned a spare one.
  for (Req* q : all) {
    std::vector<uint32_t> lo;
    for (uint32_t k : q->cand) if (k < N) lo.push_back(k);
    if (!lo.empty()) q->cand.swap(lo);
  }
  std::vector<int64_t> owner(K, -1);
  size_t unidentified = 0, dup = 0, unmatched = 0;
  // uniquely identified blocks first: two of them on one nonce = keystream reuse
  for (size_t r = 0; r < all.size(); r++) {
    Req* q = all[r];
    if (q->cand.empty()) { unidentified++; continue; }
    if (q->cand.size() == 1) {
      uint32_t k = q->cand[0];
      q->nonce = k;
      if (owner[k] >= 0) dup++; else owner[k] = (int64_t)r;
    }
  }
  for (size_t r = 0; r < all.size(); r++) {
    Req* q = all[r];
    if (q->cand.size() < 2) continue;
    std::vector<char> seen(K, 0);
    // uniquely owned nonces are not reassignable (their owners have a single candidate), augment() handles that
    if (!augment(r, all, owner, seen)) { unmatched++; q->nonce = q->cand[0]; }
  }
  for (size_t k = 0; k < K; k++) if (owner[k] >= 0 && all[(size_t)owner[k]]->cand.size() >= 2) all[(size_t)owner[k]]->nonce = (int64_t)k;
  printf("conc18 %u 0 %zu => %d %d", T, N, g_seed_calls.load(), g_reports.load());
  for (unsigned i = 0; i < T; i++)
    for (auto& q : per[i])
      printf(" %u %llu %d", i, q.nonce < 0 ? 18446744073709551615ULL : (unsigned long long)q.nonce, q.cand.size() == 1 ? 1 : 0);
  printf("\n");
  fflush(stdout);
  {  // name the first reused nonces (uniquely identified blocks only) for the replay file
    std::unordered_map<uint64_t, std::pair<unsigned, unsigned>> first;
    unsigned shown = 0;
    for (unsigned i = 0; i < T && shown < 5; i++)
      for (unsigned j = 0; j < per[i].size() && shown < 5; j++) {
        Req& q = per[i][j];
        if (q.cand.size() != 1) continue;
        auto it = first.find((uint64_t)q.nonce);
        if (it == first.end()) first[(uint64_t)q.nonce] = {i, j};
        else {
          fprintf(stderr, "conc18: nonce %lld used twice: thread %u request %u (%u bytes) and thread %u request %u received the same keystream\n",
                  (long long)q.nonce, it->second.first, it->second.second, q.len, i, j);
          shown++;
        }
      }
  }
  if (g_seed_calls.load() != 1) fprintf(stderr, "conc18: randombytes (key seeding) was called %d times\n", g_seed_calls.load());
  if (unidentified || dup || unmatched)
    fprintf(stderr, "conc18: T=%u R=%u seed=%llu: %zu blocks match no reference keystream, %zu uniquely identified blocks reuse a nonce, %zu short blocks left without a distinct nonce\n",
            T, R, (unsigned long long)seed, unidentified, dup, unmatched);
  return (unidentified || dup || unmatched || g_seed_calls.load() != 1) ? 1 : 0;
}

template <class P> static bool in_range(P const& p) {
  for (size_t cm = 0; cm < P::nmoduli; cm++)
    for (size_t i = 0; i < P::degree; i++)
      if (p(cm, i) >= P::get_modulus(cm)) return false;
  return true;
}

static int phase2(unsigned T, unsigned iters) {
  using P = nfl::poly<uint32_t, 64, 2>;
  using FG = nfl::FastGaussianNoise<uint8_t, uint32_t, 2>;
  FG* fg = new FG(20, 128, 1 << 10);   // built before the threads start; shared afterwards
  std::atomic<unsigned> ready{0};
  std::atomic<bool> go{false}, ok{true};
  std::vector<std::thread> th;
  int rep0 = g_reports.load();
  for (unsigned i = 0; i < T; i++)
    th.emplace_back([&, i] {
      ready.fetch_add(1);
      while (!go.load(std::memory_order_acquire)) std::this_thread::yield();
      std::unique_ptr<P> p(new P);
      uint32_t buf[256];
      for (unsigned k = 0; k < iters; k++) {
        switch ((i + k) % 6) {
          case 0: fg->getNoise(buf, 256); break;                                   // shared sampler object, direct
          case 1: *p = nfl::uniform(); break;
          case 2: *p = nfl::ZO_dist(); break;
          case 3: *p = nfl::hwt_dist(16); break;
          case 4: *p = nfl::non_uniform(100); break;
          case 5: *p = nfl::gaussian<uint8_t, uint32_t, 2>(fg); break;            // shared sampler object, through poly
        }
        if (!in_range(*p)) ok.store(false);
      }
    });
  while (ready.load() < T) std::this_thread::yield();
  go.store(true, std::memory_order_release);
  for (auto& t : th) t.join();
  delete fg;
  int reps = g_reports.load() - rep0;
  printf("conc18s %u %u => %d %d\n", T, iters, ok.load() ? 1 : 0, reps);
  fflush(stdout);
  return (ok.load() && reps == 0) ? 0 : 1;
}

int main() {
  uint64_t seed = vh::env_u64("VERIF_SEED", 1);
  unsigned T = (unsigned)vh::env_u64("VERIF_THREADS", 8);
  unsigned R = (unsigned)vh::env_u64("VERIF_REQS", vh::thorough() ? 800 : 300);
  vh::Rng kr(seed * 1818 + 18);
  for (auto& b : g_key) b = (unsigned char)kr.next();
  int rc = phase1(T, R, seed);
  if (rc == 3) return 3;
  rc |= phase2(T < 4 ? 4 : T, vh::thorough() ? 600 : 120);
  return rc;
}
