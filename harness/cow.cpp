// C14 correspondence harness: histories of statements on real nfl::poly_p<T,N,M> handles, executed in
// lockstep on an array of plain nfl::poly<T,N,M> values.
//
// After EVERY statement one line is printed that carries the whole history (so that the Lean driver can
// replay it in the model of Model/Cow.lean) and everything observable through the real handles:
//
//   cow <w> <n> <m> <nh> <nops> <op>* => <res> <handle>*nh <pair>*
//     <op>     := 0 d k s1..sk sub v[L]   mk     : poly_p d(args…)            (k sources: expression)
//                 1 d s sub               cctor  : poly_p d(s)                 (sub 0 const&, 1 non-const&)
//                 2 d s                   mctor  : poly_p d(std::move(s))
//                 3 d s                   cassign: d = (poly_p const&) s
//                 4 d s                   massign: d = std::move(s)
//                 5 d k s1..sk sub v[L]   assign : d = value / expression / tag; d.set(…) …
//                 6 d i x                 write  : d(cm,i) = x                 (flat index i)
//                 7 d sub                 touch  : non-const access, no write
//                 8 d sub v[L]            xform  : ntt_pow_phi / invntt_pow_invphi
//                 9 s i                   read   : const element read
//                 10 a b neg              cmp    : a == b / a != b
//                 11 a neg v[L]           cmpval : a == q / a != q (plain polynomial q)
//                 12 d                    destroy
//              v[L] (L = n·m words) is the value the same statement produced on the plain-poly shadow: the
//              oracle for the abstract functions (setters, samplers, transforms, arithmetic) of the model.
//     <res>    := what the last statement returned (element / bool), 0 otherwise
//     <handle> := 0 -1 0 | 1 -1 0 | 2 <alias> <use_count> v[L]     (non-object | empty _p | live; alias =
//                 first handle with the same _p.get(); values read through `poly_p const&`)
//     <pair>   := for a<b: -1 unless both live, else (a==b) + 2·(a!=b)
//
// Memory: built with ASan+UBSan(+LSan).  A sanitizer abort prints `HISTORY <lhs of the line in flight>`
// (death callback); allocator accounting around the real statements reports `LEAK <history>` when the
// bytes allocated by a history are not all released after every handle is destroyed.
#include "common.hpp"
#include <nfl.hpp>
#include <csignal>
#include <new>
#include <sstream>
#include <string>
#if defined(__SANITIZE_ADDRESS__)
// (g++ 12 ships no <sanitizer/allocator_interface.h>; libasan exports the functions)
extern "C" size_t __sanitizer_get_current_allocated_bytes(void);
extern "C" void __sanitizer_set_death_callback(void (*callback)(void));
#define HAVE_SAN 1
#else
#define HAVE_SAN 0
#endif

using namespace vh;

// ---- deterministic replacement of lib/prng (the harness is linked without it) ---------------------
static uint64_t g_prng_state = 1;
namespace nfl {
void fastrandombytes(unsigned char* r, unsigned long long rlen) {
  while (rlen) {
    uint64_t z = (g_prng_state += 0x9E3779B97F4A7C15ULL);
    z = (z ^ (z >> 30)) * 0xBF58476D1CE4E5B9ULL;
    z = (z ^ (z >> 27)) * 0x94D049BB133111EBULL;
    z ^= z >> 31;
    size_t n = rlen < 8 ? (size_t)rlen : 8;
    memcpy(r, &z, n);
    r += n;
    rlen -= n;
  }
}
}  // namespace nfl

static uint64_t mix(uint64_t a, uint64_t b) {
  uint64_t z = a * 0x9E3779B97F4A7C15ULL + b + 0x632BE59BD9B4E019ULL;
  z = (z ^ (z >> 30)) * 0xBF58476D1CE4E5B9ULL;
  z = (z ^ (z >> 27)) * 0x94D049BB133111EBULL;
  return z ^ (z >> 31);
}

// ---- failing-history reporting ---------------------------------------------------------------------
// lhs of the line of the history in flight (incl. the statement being executed); a plain buffer, because the
// death callback also runs for the leak report at exit, after static destructors
static char g_hist[1 << 16];
static bool g_done = false;
static void set_hist(const std::string& h) {
  size_t n = h.size() < sizeof g_hist - 1 ? h.size() : sizeof g_hist - 1;
  memcpy(g_hist, h.data(), n);
  g_hist[n] = 0;
}
static void on_death() {
  if (g_done) return;   // leak report at exit: no statement in flight (leaking histories were reported as LEAK lines)
  fflush(stdout);
  fprintf(stderr, "\nHISTORY %s\n", g_hist);
  fflush(stderr);
}
static void on_abort(int) {
  on_death();
  _exit(96);
}
static long g_leaks = 0, g_shadowdiff = 0, g_lines = 0;
static bool g_warmup = false;   // first use of iostreams / GMP allocates library-internal memory once

static inline int64_t allocated_now() {
#if HAVE_SAN
  return (int64_t)__sanitizer_get_current_allocated_bytes();
#else
  return 0;
#endif
}

enum { MK = 0, CCTOR, MCTOR, CASSIGN, MASSIGN, ASSIGN, WRITE, TOUCH, XFORM, READ, CMP, CMPVAL, DESTROY };
enum { NASSIGN_FORMS = 15, NMK_FORMS = 11, NTOUCH_FORMS = 5, NEXPR_FORMS = 5 };

struct Op {
  int code = 0, d = 0, s = 0, sub = 0, nsrc = 0, src[3] = {0, 0, 0}, i = 0, neg = 0;
  uint64_t k = 0, x = 0;
  std::vector<uint64_t> val;  // oracle / payload, filled by the shadow execution
  unsigned long long res = 0;
};

constexpr int MAXH = 6;

template <class T, size_t N, size_t M> struct Runner {
  using P = nfl::poly_p<T, N, M>;
  using Q = nfl::poly<T, N, M>;
  static constexpr size_t L = N * M;

  Q sh[MAXH];  // plain-value shadow
  Q scratch;
  alignas(32) unsigned char hbuf[MAXH][sizeof(P)];
  bool exists[MAXH];
  int vs[MAXH];  // shadow status: 0 non-object, 1 moved-from, 2 value
  int nh;
  std::string enc;  // encoded statements so far
  int nops = 0;
  int64_t alloc_delta = 0;
  bool failed = false;

  explicit Runner(int nh_) : nh(nh_) {
    for (int i = 0; i < MAXH; i++) { exists[i] = false; vs[i] = 0; }
  }
  P& H(int i) { return *reinterpret_cast<P*>(hbuf[i]); }
  const P& CH(int i) { return *reinterpret_cast<const P*>(hbuf[i]); }

  std::string header() const {
    char b[96];
    snprintf(b, sizeof b, "cow %d %zu %zu %d %d", bits<T>(), N, M, nh, nops);
    return b;
  }

  // ---- values derived from the statement's seed k -------------------------------------------------
  static T small(uint64_t k, int j) { return (T)(1 + mix(k, j) % 997); }
  static void fillq(Q& q, uint64_t k) { for (size_t cm = 0; cm < M; cm++) for (size_t i = 0; i < N; i++) q(cm, i) = small(k, 100 + cm * N + i); }
  static std::vector<T> vec(uint64_t k) {  // 1..N values, or the full N*M
    size_t len = 1 + mix(k, 7) % (N + 1);
    if (len == N + 1) len = N * M;
    std::vector<T> v(len);
    for (size_t i = 0; i < len; i++) v[i] = small(k, 20 + i);
    return v;
  }
  static uint64_t bound(uint64_t k) { return 2 + mix(k, 3) % 60; }
  static uint32_t hwt(uint64_t k) { return 1 + mix(k, 4) % N; }

  struct MpzArr {
    std::array<mpz_t, N> a;
    MpzArr() { for (auto& z : a) mpz_init2(z, 256); }
    ~MpzArr() { for (auto& z : a) mpz_clear(z); }
  };

  // the value-producing statement forms, written once for poly_p and for poly ------------------------
  template <class X> static void assign_form(X& h, int sub, uint64_t k) {
    T a = small(k, 0), b = small(k, 1), c = small(k, 2);
    switch (sub) {
      case 0: h = a; break;                                    // forwarding operator=(O&&), O = T
      case 1: h = {a, b, c}; break;                            // operator=(initializer_list)
      case 2: h = nfl::uniform(); break;
      case 3: h = nfl::non_uniform(bound(k)); break;
      case 4: h = nfl::hwt_dist(hwt(k)); break;
      case 5: h = nfl::ZO_dist((uint8_t)mix(k, 5)); break;
      case 6: h.set(a, true); break;
      case 7: h.set(nfl::uniform()); break;
      case 8: h.set(nfl::non_uniform(bound(k))); break;
      case 9: h.set({a, b}, false); break;
      case 10: { auto v = vec(k); h.set(v.begin(), v.end(), true); } break;
      case 11: h.set_mpz(mpz_class((unsigned long)a)); break;
      case 12: {
        std::string bytes(L * sizeof(T), '\0');
        for (size_t i = 0; i < L; i++) { T w = small(k, 40 + i); memcpy(&bytes[i * sizeof(T)], &w, sizeof(T)); }
        std::istringstream is(bytes);
        h.deserialize_manually(is);
      } break;
      case 13: {
        MpzArr z;
        for (size_t i = 0; i < N; i++) mpz_set_ui(z.a[i], (unsigned long)small(k, 60 + i));
        h.mpz2poly(z.a);
      } break;
      case 14: { Q q; fillq(q, k); h = q; } break;             // forwarding operator=(O&&), O = poly&
    }
  }
  template <class X> static void touch_form(X& h, int sub, uint64_t k) {
    switch (sub) {
      case 0: { volatile T x = h(mix(k, 1) % M, mix(k, 2) % N); (void)x; } break;  // non-const operator()
      case 1: if constexpr (std::is_same<X, P>::value) { volatile T x = h.poly_obj()(0, 0); (void)x; } break;   // non-const poly_obj()
      case 2: { std::ostringstream os; h.serialize_manually(os); } break;
      case 3: { MpzArr z; h.poly2mpz(z.a); } break;
      case 4: { auto a = h.poly2mpz(); for (auto& z : a) mpz_clear(z); } break;
    }
  }
  // expression over sources A,B,C (poly_p const& or poly const&), evaluated into `out` by `sink`
  template <class A, class F> static void expr_form(int sub, uint64_t k, A const& a, A const& b, A const& c, F sink) {
    switch (sub) {
      case 0: sink(a + b); break;
      case 1: sink(a - b); break;
      case 2: sink(a * b); break;
      case 3: sink(a * b + c); break;
      case 4: { Q q; fillq(q, k); sink(a + q); } break;
    }
  }
  static int expr_arity(int sub) { return sub == 3 ? 3 : sub == 4 ? 1 : 2; }

  void words(const Q& q, std::vector<uint64_t>& out) {
    out.clear();
    for (size_t cm = 0; cm < M; cm++) for (size_t i = 0; i < N; i++) out.push_back((uint64_t)q(cm, i));
  }

  // ---- the statement on the shadow (plain values); fills the oracle ---------------------------------
  void do_shadow(Op& op) {
    g_prng_state = mix(op.k, 99);
    int d = op.d;
    switch (op.code) {
      case MK:
      case ASSIGN:
        if (op.nsrc > 0) {
          const Q &a = sh[op.src[0]], &b = sh[op.src[op.nsrc > 1 ? 1 : 0]], &c = sh[op.src[op.nsrc > 2 ? 2 : 0]];
          expr_form(op.sub, op.k, a, b, c, [&](auto const& e) { scratch = e; });
          sh[d] = scratch;
        } else if (op.code == ASSIGN) {
          assign_form(sh[d], op.sub, op.k);
        } else {
          T a = small(op.k, 0), b = small(op.k, 1), c = small(op.k, 2);
          switch (op.sub) {
            case 0: sh[d] = Q(); break;
            case 1: sh[d] = Q(a); break;
            case 2: sh[d] = Q(std::initializer_list<T>{a, b, c}); break;
            case 3: { auto v = vec(op.k); sh[d] = Q(v.begin(), v.end()); } break;
            case 4: sh[d] = Q(nfl::uniform()); break;
            case 5: sh[d] = Q(nfl::non_uniform(bound(op.k))); break;
            case 6: sh[d] = Q(nfl::hwt_dist(hwt(op.k))); break;
            case 7: sh[d] = Q(nfl::ZO_dist((uint8_t)mix(op.k, 5))); break;
            case 8: sh[d] = Q(a, false); break;
            case 9: sh[d] = Q(mpz_class((unsigned long)a)); break;
            case 10: { Q q; fillq(q, op.k); sh[d] = q; } break;
          }
        }
        vs[d] = 2;
        words(sh[d], op.val);
        break;
      case CCTOR: sh[d] = sh[op.s]; vs[d] = 2; break;
      case MCTOR: sh[d] = sh[op.s]; vs[d] = 2; vs[op.s] = 1; break;
      case CASSIGN: sh[d] = sh[op.s]; vs[d] = 2; break;
      case MASSIGN: if (d != op.s) { sh[d] = sh[op.s]; vs[d] = 2; vs[op.s] = 1; } break;
      case WRITE: sh[d](op.i / N, op.i % N) = (T)op.x; break;
      case TOUCH: touch_form(sh[d], op.sub, op.k); break;
      case XFORM:
        if (op.sub == 0) sh[d].ntt_pow_phi(); else sh[d].invntt_pow_invphi();
        words(sh[d], op.val);
        break;
      case READ: break;
      case CMP: break;
      case CMPVAL:
        if (op.k & 1) fillq(scratch, op.k); else scratch = sh[op.d];
        if ((op.k & 6) == 2) scratch(0, 0) = (T)(scratch(0, 0) ^ 1);
        words(scratch, op.val);
        break;
      case DESTROY: vs[d] = 0; break;
    }
  }

  // ---- the statement on the real handles ------------------------------------------------------------
  void do_real(Op& op) {
    g_prng_state = mix(op.k, 99);
    int d = op.d;
    void* buf = hbuf[d];
    switch (op.code) {
      case MK:
        // every fourth construction is preceded by construction attempts that the value type rejects with an exception
        // (bound not below the moduli; a list longer than the degree that is not degree*moduli): the handle does not
        // come into existence, values are unaffected, and the storage obtained for it must have been released — the
        // per-history allocation accounting below reports it otherwise
        if ((mix(op.k, 17) & 3) == 0) {
          try { new (buf) P(nfl::non_uniform(~0ULL)); reinterpret_cast<P*>(buf)->~P(); } catch (std::runtime_error const&) {}
          try {
            std::vector<T> v(P::degree + 1 == P::degree * P::nmoduli ? P::degree + 2 : P::degree + 1, (T)1);
            new (buf) P(v.begin(), v.end()); reinterpret_cast<P*>(buf)->~P();
          } catch (std::runtime_error const&) {}
        }
        if (op.nsrc > 0) {
          const P &a = CH(op.src[0]), &b = CH(op.src[op.nsrc > 1 ? 1 : 0]), &c = CH(op.src[op.nsrc > 2 ? 2 : 0]);
          expr_form(op.sub, op.k, a, b, c, [&](auto const& e) { new (buf) P(e); });   // forwarding ctor, Args = expr
        } else {
          T a = small(op.k, 0), b = small(op.k, 1), c = small(op.k, 2);
          switch (op.sub) {
            case 0: new (buf) P(); break;
            case 1: new (buf) P(a); break;
            case 2: new (buf) P(std::initializer_list<T>{a, b, c}); break;
            case 3: { auto v = vec(op.k); new (buf) P(v.begin(), v.end()); } break;
            case 4: new (buf) P(nfl::uniform()); break;
            case 5: new (buf) P(nfl::non_uniform(bound(op.k))); break;
            case 6: new (buf) P(nfl::hwt_dist(hwt(op.k))); break;
            case 7: new (buf) P(nfl::ZO_dist((uint8_t)mix(op.k, 5))); break;
            case 8: new (buf) P(a, false); break;
            case 9: new (buf) P(mpz_class((unsigned long)a)); break;
            case 10: { Q q; fillq(q, op.k); new (buf) P(q); } break;   // non-const plain-poly lvalue: the forwarding ctor beats the deleted poly_p(poly const&)
          }
        }
        exists[d] = true;
        break;
      case CCTOR:
        if (op.sub == 0) new (buf) P(CH(op.s)); else new (buf) P(H(op.s));
        exists[d] = true;
        break;
      case MCTOR: new (buf) P(std::move(H(op.s))); exists[d] = true; break;
      case CASSIGN: H(d) = CH(op.s); break;
      case MASSIGN: { P& src = H(op.s); H(d) = std::move(src); } break;
      case ASSIGN:
        if (op.nsrc > 0) {
          const P &a = CH(op.src[0]), &b = CH(op.src[op.nsrc > 1 ? 1 : 0]), &c = CH(op.src[op.nsrc > 2 ? 2 : 0]);
          expr_form(op.sub, op.k, a, b, c, [&](auto const& e) { H(d) = e; });          // forwarding operator=, O = expr
        } else {
          assign_form(H(d), op.sub, op.k);
        }
        break;
      case WRITE: H(d)(op.i / N, op.i % N) = (T)op.x; break;
      case TOUCH: touch_form(H(d), op.sub, op.k); break;
      case XFORM: if (op.sub == 0) H(d).ntt_pow_phi(); else H(d).invntt_pow_invphi(); break;
      case READ: op.res = (unsigned long long)CH(op.s)(op.i / N, op.i % N); break;
      case CMP: op.res = op.neg ? (CH(op.d) != CH(op.s)) : (CH(op.d) == CH(op.s)); break;
      case CMPVAL: {
        for (size_t j = 0; j < L; j++) scratch(j / N, j % N) = (T)op.val[j];
        op.res = op.neg ? (CH(op.d) != scratch) : (CH(op.d) == scratch);
      } break;
      case DESTROY: H(d).~P(); exists[d] = false; break;
    }
  }

  void encode(const Op& op, std::string& out) {
    char b[64];
    auto put1 = [&](long long v) { snprintf(b, sizeof b, " %lld", v); out += b; };
    auto putv = [&]() { for (uint64_t v : op.val) { snprintf(b, sizeof b, " %llu", (unsigned long long)v); out += b; } };
    put1(op.code);
    switch (op.code) {
      case MK: case ASSIGN:
        put1(op.d); put1(op.nsrc);
        for (int j = 0; j < op.nsrc; j++) put1(op.src[j]);
        put1(op.sub); putv();
        break;
      case CCTOR: put1(op.d); put1(op.s); put1(op.sub); break;
      case MCTOR: case CASSIGN: case MASSIGN: put1(op.d); put1(op.s); break;
      case WRITE: put1(op.d); put1(op.i); snprintf(b, sizeof b, " %llu", (unsigned long long)op.x); out += b; break;
      case TOUCH: put1(op.d); put1(op.sub); break;
      case XFORM: put1(op.d); put1(op.sub); putv(); break;
      case READ: put1(op.s); put1(op.i); break;
      case CMP: put1(op.d); put1(op.s); put1(op.neg); break;
      case CMPVAL: put1(op.d); put1(op.neg); putv(); break;
      case DESTROY: put1(op.d); break;
    }
  }

  // one statement: shadow first (safe, gives the oracle), then announce, then the real thing
  void exec(Op& op) {
    do_shadow(op);
    encode(op, enc);
    nops++;
    set_hist(header() + enc);
    int64_t before = allocated_now();
    do_real(op);
    alloc_delta += allocated_now() - before;
  }

  // destroy every handle that still exists and check that the history's allocations are all released
  void reset() {
    if (nops > 0) set_hist(header() + enc + "   [abort while destroying all remaining handles after this history]");
    int64_t before = allocated_now();
    for (int i = 0; i < nh; i++)
      if (exists[i]) { H(i).~P(); exists[i] = false; }
    alloc_delta += allocated_now() - before;
    if (alloc_delta != 0 && nops > 0 && !g_warmup) {
      g_leaks++;
      fflush(stdout);
      if (g_leaks <= 40) fprintf(stderr, "LEAK %lld %s\n", (long long)alloc_delta, g_hist);
    }
    for (int i = 0; i < nh; i++) vs[i] = 0;
    enc.clear();
    nops = 0;
    alloc_delta = 0;
    failed = false;
  }

  // print the line for the current history; returns false when the real handles disagree with the shadow
  bool emit(const Op& last) {
    std::string out = header() + enc + " =>";
    char b[64];
    snprintf(b, sizeof b, " %llu", last.res);
    out += b;
    bool ok = true;
    for (int h = 0; h < nh; h++) {
      int st = !exists[h] ? 0 : (H(h)._p ? 2 : 1);
      if (st != vs[h] && !(vs[h] == 1 && st == 2)) ok = false;   // a moved-from variable has no observable value
      if (st != 2) { snprintf(b, sizeof b, " %d -1 0", st); out += b; continue; }
      int alias = h;
      for (int j = 0; j < h; j++) if (exists[j] && H(j)._p.get() == H(h)._p.get()) { alias = j; break; }
      snprintf(b, sizeof b, " 2 %d %ld", alias, (long)H(h)._p.use_count());
      out += b;
      const P& c = CH(h);
      for (size_t cm = 0; cm < M; cm++) for (size_t i = 0; i < N; i++) {
        T v = c(cm, i);
        if (vs[h] == 2 && v != sh[h](cm, i)) ok = false;
        snprintf(b, sizeof b, " %llu", (unsigned long long)v);
        out += b;
      }
    }
    for (int a = 0; a < nh; a++) for (int c = a + 1; c < nh; c++) {
      int code = -1;
      if (exists[a] && exists[c] && H(a)._p && H(c)._p) {
        code = (CH(a) == CH(c) ? 1 : 0) + (CH(a) != CH(c) ? 2 : 0);
        if (vs[a] == 2 && vs[c] == 2) {
          int want = (sh[a] == sh[c] ? 1 : 0) + (sh[a] != sh[c] ? 2 : 0);
          if (want != code) ok = false;
        }
      }
      snprintf(b, sizeof b, " %d", code);
      out += b;
    }
    if (g_warmup) return true;
    puts(out.c_str());
    g_lines++;
    if (!ok) { g_shadowdiff++; printf("#SHADOWDIFF %s\n", (header() + enc).c_str()); failed = true; }
    return ok;
  }

  // ---- statement generation --------------------------------------------------------------------------
  std::vector<int> live() { std::vector<int> v; for (int i = 0; i < nh; i++) if (vs[i] == 2) v.push_back(i); return v; }

  // a "write" statement on d: one of assignment forms / element write / transform / expression assignment
  Op make_write(int d, uint64_t h) {
    Op op; op.d = d; op.k = mix(h, 11);
    auto lv = live();
    switch (mix(h, 1) % 8) {
      case 0: case 1: case 2: op.code = ASSIGN; op.sub = mix(h, 2) % NASSIGN_FORMS; break;
      case 3: case 4: op.code = WRITE; op.i = mix(h, 3) % L; op.x = small(op.k, 9); if (mix(h, 5) % 4 == 0) op.x = (uint64_t)(T)~(T)0; break;
      case 5: op.code = XFORM; op.sub = mix(h, 4) % 2; break;
      default:
        op.code = ASSIGN; op.sub = mix(h, 6) % NEXPR_FORMS; op.nsrc = expr_arity(op.sub);
        for (int j = 0; j < op.nsrc; j++) op.src[j] = lv[mix(h, 20 + j) % lv.size()];
        if (mix(h, 7) % 2 == 0) op.src[0] = d;   // d = d ⊕ …  (operand aliases the destination)
        break;
    }
    return op;
  }
  Op make_mk(int d, uint64_t h) {
    Op op; op.code = MK; op.d = d; op.k = mix(h, 12);
    auto lv = live();
    if (!lv.empty() && mix(h, 1) % 4 == 0) {
      op.sub = mix(h, 6) % NEXPR_FORMS; op.nsrc = expr_arity(op.sub);
      for (int j = 0; j < op.nsrc; j++) op.src[j] = lv[mix(h, 20 + j) % lv.size()];
    } else {
      op.sub = mix(h, 2) % NMK_FORMS;
    }
    return op;
  }
  Op make_touch(int d, uint64_t h) { Op op; op.code = TOUCH; op.d = d; op.k = mix(h, 13); op.sub = mix(h, 2) % NTOUCH_FORMS; return op; }
  Op make2(int code, int d, int s, uint64_t h) { Op op; op.code = code; op.d = d; op.s = s; op.sub = mix(h, 2) % 2; return op; }

  // all well-formed structural statements in the current (shadow) state; forms chosen by the hash h
  std::vector<Op> candidates(uint64_t h, bool first) {
    std::vector<Op> c;
    int idx = 0;
    for (int d = 0; d < nh; d++) {
      if (first && d != 0) break;  // symmetry: the first statement constructs handle 0
      if (vs[d] == 0) {
        c.push_back(make_mk(d, mix(h, ++idx)));
        for (int s = 0; s < nh; s++) if (vs[s] == 2) { c.push_back(make2(CCTOR, d, s, mix(h, ++idx))); c.push_back(make2(MCTOR, d, s, mix(h, ++idx))); }
      } else {
        for (int s = 0; s < nh; s++) if (vs[s] == 2) { c.push_back(make2(CASSIGN, d, s, mix(h, ++idx))); c.push_back(make2(MASSIGN, d, s, mix(h, ++idx))); }
        if (vs[d] == 2) { c.push_back(make_write(d, mix(h, ++idx))); c.push_back(make_touch(d, mix(h, ++idx))); }
        Op de; de.code = DESTROY; de.d = d; c.push_back(de);
      }
    }
    return c;
  }

  void replay(std::vector<Op>& path) {
    reset();
    for (auto& op : path) exec(op);
  }

  void dfs(std::vector<Op>& path, uint64_t h, int maxd) {
    auto cands = candidates(h, path.empty());
    for (size_t ci = 0; ci < cands.size(); ci++) {
      path.push_back(cands[ci]);
      replay(path);
      bool ok = emit(path.back());
      if (ok && (int)path.size() < maxd) dfs(path, mix(h, 1000 + ci), maxd);
      path.pop_back();
    }
  }

  // every statement form once, without any sharing: the first use of iostreams / GMP / static tables allocates
  // library-internal memory that must not be attributed to a history
  void warmup() {
    reset();
    auto run1 = [&](Op op) { exec(op); };
    for (int f = 0; f < NMK_FORMS; f++) {
      Op m; m.code = MK; m.d = 0; m.sub = f; m.k = 1000 + f; run1(m);
      Op d; d.code = DESTROY; d.d = 0; run1(d);
    }
    Op m; m.code = MK; m.d = 0; m.sub = 1; m.k = 5; run1(m);
    for (int f = 0; f < NASSIGN_FORMS; f++) { Op a; a.code = ASSIGN; a.d = 0; a.sub = f; a.k = 2000 + f; run1(a); }
    for (int f = 0; f < NTOUCH_FORMS; f++) { Op t; t.code = TOUCH; t.d = 0; t.sub = f; t.k = 3000 + f; run1(t); }
    for (int f = 0; f < 2; f++) { Op x; x.code = XFORM; x.d = 0; x.sub = f; run1(x); }
    for (int f = 0; f < NEXPR_FORMS; f++) {
      Op a; a.code = ASSIGN; a.d = 0; a.sub = f; a.nsrc = expr_arity(f); a.k = 4000 + f; run1(a);
      Op e; e.code = MK; e.d = 1; e.sub = f; e.nsrc = expr_arity(f); e.k = 5000 + f; run1(e);
      Op d; d.code = DESTROY; d.d = 1; run1(d);
    }
    Op c; c.code = CMPVAL; c.d = 0; c.k = 6; run1(c);
    Op q; q.code = CMP; q.d = 0; q.s = 0; run1(q);
    reset();
  }

  // long random history over nh handles (every statement kind incl. reads and comparisons)
  void random_history(Rng& g, int len) {
    reset();
    for (int step = 0; step < len && !failed; step++) {
      uint64_t h = g.next();
      auto lv = live();
      std::vector<int> dead, obj;
      for (int i = 0; i < nh; i++) { if (vs[i] == 0) dead.push_back(i); else obj.push_back(i); }
      Op op;
      for (;;) {
        int r = (int)(mix(h, 0) % 100);
        h = mix(h, 77);
        auto pick = [&](std::vector<int>& v, int salt) { return v[mix(h, salt) % v.size()]; };
        if (r < 10) { if (dead.empty()) continue; op = make_mk(pick(dead, 1), h); }
        else if (r < 20) { if (dead.empty() || lv.empty()) continue; op = make2(CCTOR, pick(dead, 1), pick(lv, 2), h); }
        else if (r < 26) { if (dead.empty() || lv.empty()) continue; op = make2(MCTOR, pick(dead, 1), pick(lv, 2), h); }
        else if (r < 38) { if (obj.empty() || lv.empty()) continue; op = make2(CASSIGN, pick(obj, 1), pick(lv, 2), h); }
        else if (r < 46) { if (obj.empty() || lv.empty()) continue; op = make2(MASSIGN, pick(obj, 1), pick(lv, 2), h); }
        else if (r < 48) { if (lv.empty()) continue; int d = pick(lv, 1); op = make2(mix(h, 9) % 2 ? CASSIGN : MASSIGN, d, d, h); }
        else if (r < 68) { if (lv.empty()) continue; op = make_write(pick(lv, 1), h); }
        else if (r < 74) { if (lv.empty()) continue; op = make_touch(pick(lv, 1), h); }
        else if (r < 79) { if (lv.empty()) continue; op = Op(); op.code = READ; op.s = pick(lv, 1); op.i = mix(h, 3) % L; }
        else if (r < 86) { if (lv.empty()) continue; op = Op(); op.code = CMP; op.d = pick(lv, 1); op.s = pick(lv, 2); op.neg = mix(h, 4) % 2; }
        else if (r < 90) { if (lv.empty()) continue; op = Op(); op.code = CMPVAL; op.d = pick(lv, 1); op.neg = mix(h, 4) % 2; op.k = mix(h, 5); }
        else { if (obj.empty()) continue; op = Op(); op.code = DESTROY; op.d = pick(obj, 1); }
        break;
      }
      exec(op);
      emit(op);
    }
    reset();
  }
};

template <class T, size_t N, size_t M> static void run_config(uint64_t seed, int depth, int nrand, int randlen, int nh_rand) {
  using R = Runner<T, N, M>;
  {
    g_warmup = true;
    R* r = new R(2);
    r->warmup();
    delete r;
    g_warmup = false;
  }
  {
    R* r = new R(3);
    std::vector<Op> path;
    r->dfs(path, mix(seed, 0xC14 + bits<T>()), depth);
    r->reset();
    delete r;
  }
  Rng g(seed * 1000003 + bits<T>() * 31 + N);
  for (int i = 0; i < nrand; i++) {
    R* r = new R(i % 2 ? 3 : nh_rand);
    r->random_history(g, randlen);
    delete r;
  }
}

int main() {
#if HAVE_SAN
  __sanitizer_set_death_callback(on_death);
#endif
  signal(SIGABRT, on_abort);
  uint64_t seed = env_u64("VERIF_SEED", 1);
  bool th = thorough();
  int dA = (int)env_u64("VERIF_COW_DEPTH_A", th ? 6 : 5);
  int dB = (int)env_u64("VERIF_COW_DEPTH_B", th ? 5 : 4);
  int nrand = (int)env_u64("VERIF_COW_NRAND", th ? 12 : 3);
  int rlen = (int)env_u64("VERIF_COW_RANDLEN", th ? 400 : 220);
  try {
    run_config<uint64_t, 4, 1>(seed, dA, nrand, rlen, 5);
    run_config<uint32_t, 8, 2>(seed, dB, nrand, rlen, 4);
  } catch (std::exception const& e) {
    fflush(stdout);
    fprintf(stderr, "EXCEPTION %s\n", e.what());
    on_death();
    return 95;
  }
  fflush(stdout);
  g_done = true;
  fprintf(stderr, "cow[%s]: lines=%ld shadowdiff=%ld leaks=%ld\n", BACKEND_NAME, g_lines, g_shadowdiff, g_leaks);
  return g_leaks ? 94 : 0;
}
