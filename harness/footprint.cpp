// C17 footprint harness.  Built NON-PIE (-no-pie) so that the executable's .data/.bss have the link-time
// addresses `readelf -S` / `nm` print.  tools/gen_footprint.py runs it under two instruments:
//
//  (L) `valgrind --tool=lackey --trace-mem=yes` (`footprint <group>`): every load/store of the process.  Lackey
//      prints addresses, not values, so the markers are *variables*: a store to `vh_begin` opens the window of the
//      next operation, a store to `vh_end` closes it, the two stores to `vh_phase` delimit the op phase (the first
//      one is the first statement of main: static initialisation is over).
//  (W) native write-protection (`footprint wp <config>`): at the start of main every page of the executable's
//      writable static storage is made read-only (mprotect), except the page(s) of the harness's own state `vh_wp`.
//      A store into static storage then raises SIGSEGV; the handler records the exact address and the operation,
//      re-opens that page and lets the store proceed; pages are closed again at every window boundary.  "No record"
//      = "no store at all" (page granularity only limits how many stores of one window are itemised).  Native
//      speed, so every degree class is affordable (65536, and 2^20 in the thorough tier).  A `canary` operation that
//      does store into a static proves on every run that the instrument sees stores.
//
// In a window exactly one arithmetic API operation is performed on objects that are private to this function
// (stack / heap).  The translator records, per operation, every store that lands in the executable's writable
// static storage and (L) the statics that are read.
//
// FIRST USE.  The property is "immutable after program start", so what has to be observed is the FIRST execution of
// every operation after static initialisation (a table that is built lazily is written exactly once, by whoever
// comes first).  Therefore
//   * one PROCESS per configuration group (L) / per configuration (W): nothing has run before its first op;
//   * the preparation code between two windows (constructors of the operands, ...) belongs to the footprint too: the
//     translator attributes every store into static storage that happens between the end of window k-1 and the end of
//     window k to operation k (only the harness's own bookkeeping `vh_wp` / `vh_sink` is exempt);
//   * every configuration executes the inverse transform (the only user of the bit-reversal table), and the
//     configurations run by `run_inv_first` execute it BEFORE any other transform of that type.
// Configurations = code paths that depend on the degree class and the limb width:
//   degree <= PERMUT_LIMIT_UNROLL (unrolled permutation): u16/u32/u64 degree 16/32 (full operation list), u64 1024
//          (largest unrolled), u16 512 (kMaxPolyDegree of 16-bit limbs)
//   static bit-reversal table, 16-bit indices: u32/u64 degree 2048, u32 degree 32768 (kMaxPolyDegree of 32-bit limbs)
//   degree > 32768 (32-bit indices; 64-bit limbs only): u64 degree 65536 with 1 and 2 moduli (one shared table),
//          thorough: u64 degree 2^20 (kMaxPolyDegree)
// (L) traces group `small` (as before) and `mid` (u64 2048, inverse transform first) in every tier and `big` (u64 65536:
// construct + inverse transform only, ~40 s of valgrind; degree 32768 costs ~25 s, mostly static initialisation, and is
// left to (W)) in the thorough tier; (W) runs every configuration.
//
// The operation list is printed on stdout (`op <k> <config> <name>`), so the translator needs no second copy.
#include <cstdint>
#include <cstdio>
#include <sstream>
#include <array>
#include <signal.h>
#include <sys/mman.h>
#include <ucontext.h>
#include <unistd.h>
#include <nfl.hpp>

extern "C" {
volatile uint64_t vh_phase __attribute__((used)) = 0;
volatile uint64_t vh_begin __attribute__((used)) = 0;
volatile uint64_t vh_end __attribute__((used)) = 0;
volatile uint64_t vh_sink __attribute__((used)) = 0;
volatile uint64_t vh_canary __attribute__((used)) = 0;   // an ordinary static: the canary operation stores into it

// all mutable state of the harness itself: owns its page(s), never write-protected
struct Hit { uintptr_t addr; unsigned op; unsigned in_window; };
struct alignas(4096) VhWp {
  unsigned k;                        // index of the next operation
  int on;                            // write-protection instrument active
  int in_window;
  unsigned nhits, nopen, dropped;
  uint64_t sink;
  uintptr_t lo, hi;                  // page-aligned cover of [__data_start, _end)
  std::vector<std::string>* names;   // heap object; the pointer is written before the op phase only
  Hit hits[4096];
  uintptr_t open[4096];
  char pad[4096];
};
VhWp vh_wp __attribute__((used));
extern char __data_start[], _end[];
}

static inline bool own_page(uintptr_t pg) {
  return pg + 4096 > (uintptr_t)&vh_wp && pg < (uintptr_t)&vh_wp + sizeof(vh_wp);
}
static void wp_protect_all() {
  for (uintptr_t pg = vh_wp.lo; pg < vh_wp.hi; pg += 4096)
    if (!own_page(pg)) mprotect((void*)pg, 4096, PROT_READ);
}
static void wp_unprotect_all() {
  mprotect((void*)vh_wp.lo, vh_wp.hi - vh_wp.lo, PROT_READ | PROT_WRITE);
}
static void wp_close_pages() {
  for (unsigned i = 0; i < vh_wp.nopen; i++) mprotect((void*)vh_wp.open[i], 4096, PROT_READ);
  vh_wp.nopen = 0;
}
static void wp_handler(int, siginfo_t* si, void* uc_) {
  uintptr_t a = (uintptr_t)si->si_addr;
  ucontext_t* uc = (ucontext_t*)uc_;
  bool is_write = uc->uc_mcontext.gregs[REG_ERR] & 2;
  if (!vh_wp.on || !is_write || a < vh_wp.lo || a >= vh_wp.hi) {   // a genuine crash
    signal(SIGSEGV, SIG_DFL);
    return;
  }
  if (a >= (uintptr_t)__data_start && a < (uintptr_t)_end) {        // (.got.plt of lazy binding shares the first page)
    if (vh_wp.nhits < 4096) {
      vh_wp.hits[vh_wp.nhits].addr = a;
      vh_wp.hits[vh_wp.nhits].op = vh_wp.k;
      vh_wp.hits[vh_wp.nhits].in_window = vh_wp.in_window;
      vh_wp.nhits++;
    } else vh_wp.dropped++;
  }
  uintptr_t pg = a & ~(uintptr_t)4095;
  mprotect((void*)pg, 4096, PROT_READ | PROT_WRITE);
  if (vh_wp.nopen < 4096) vh_wp.open[vh_wp.nopen++] = pg;          // (else it stays open: only itemisation suffers)
}
static void wp_start() {
  vh_wp.lo = (uintptr_t)__data_start & ~(uintptr_t)4095;
  vh_wp.hi = ((uintptr_t)_end + 4095) & ~(uintptr_t)4095;
  struct sigaction sa;
  memset(&sa, 0, sizeof sa);
  sa.sa_sigaction = wp_handler;
  sa.sa_flags = SA_SIGINFO | SA_NODEFER;
  sigaction(SIGSEGV, &sa, nullptr);
  vh_wp.on = 1;
  wp_protect_all();
}
static inline void set_sink(uint64_t v) { if (vh_wp.on) vh_wp.sink = v; else vh_sink = v; }

// window k = [end of window k-1, end of window k): preparation + the operation itself
#define OP(cfg, name, ...)                                    \
  do {                                                        \
    vh_wp.names->push_back(std::string(cfg) + " " + (name));  \
    if (vh_wp.on) { wp_close_pages(); vh_wp.in_window = 1; }  \
    else vh_begin = vh_wp.k;                                  \
    asm volatile("" ::: "memory");                            \
    { __VA_ARGS__; }                                          \
    asm volatile("" ::: "memory");                            \
    if (vh_wp.on) { wp_close_pages(); vh_wp.in_window = 0; }  \
    else vh_end = vh_wp.k;                                    \
    vh_wp.k++;                                                \
  } while (0)

template <class T, size_t D, size_t M>
static void run_cfg(const char* cfg) {
  using P = nfl::poly<T, D, M>;
  using PP = nfl::poly_p<T, D, M>;
  // inputs prepared outside the windows
  T vals[D];
  for (size_t i = 0; i < D; i++) vals[i] = (T)(3 * i + 1);
  P* a = new P(vals, vals + D);
  P* b = new P{(T)5, (T)7, (T)11};
  P* c = new P;
  P* s = new P;
  bool r = false;
  std::array<mpz_t, D> arr;
  for (size_t i = 0; i < D; i++) mpz_init_set_ui(arr[i], 1000003u * (i + 1));
  mpz_class big("123456789123456789");
  std::array<mpz_class, D> carr;  // (set_mpz(std::array<mpz_t,D>) does not instantiate in the library: not exercised)
  for (size_t i = 0; i < D; i++) carr[i] = big * (unsigned long)(i + 1);
  std::stringstream ss, ts;

  OP(cfg, "construct_default", P* t = new P; delete t);
  OP(cfg, "construct_value", P* t = new P((T)42); delete t);
  OP(cfg, "construct_list", P* t = new P{(T)1, (T)2, (T)3}; delete t);
  OP(cfg, "construct_range", P* t = new P(vals, vals + D); delete t);
  OP(cfg, "copy_assign", *c = *a);
  OP(cfg, "ntt_pow_phi", a->ntt_pow_phi());
  OP(cfg, "ntt_pow_phi_b", b->ntt_pow_phi());
  OP(cfg, "add", *c = *a + *b);
  OP(cfg, "sub", *c = *a - *b);
  OP(cfg, "mul", *c = *a * *b);
  OP(cfg, "compute_shoup", *s = nfl::compute_shoup(*b));
  OP(cfg, "shoup_product", *c = nfl::shoup(*a * *b, *s));
  OP(cfg, "add_fn", nfl::add(*c, *a, *b));
  OP(cfg, "sub_fn", nfl::sub(*c, *a, *b));
  OP(cfg, "mul_fn", nfl::mul(*c, *a, *b));
  OP(cfg, "expr_nested", *c = *a * *b + *a - *b);
  OP(cfg, "eq", r ^= (*a == *b));
  OP(cfg, "neq", r ^= (*a != *b));
  OP(cfg, "eq_self", r ^= (*a == *a));
  OP(cfg, "operator_bool", r ^= (bool)*c);
  OP(cfg, "invntt_pow_invphi", c->invntt_pow_invphi());
  OP(cfg, "invntt_pow_invphi_a", a->invntt_pow_invphi());
  OP(cfg, "poly2mpz_into", a->poly2mpz(arr));
  OP(cfg, "poly2mpz_new", auto t = c->poly2mpz(); for (auto& z : t) mpz_clear(z));
  OP(cfg, "mpz2poly", c->mpz2poly(arr));
  OP(cfg, "set_mpz_array_class", c->set_mpz(carr));
  OP(cfg, "set_mpz_class", c->set_mpz(big));
  OP(cfg, "construct_mpz_class", P* t = new P(big); delete t);
  OP(cfg, "construct_mpz_list", P* t = new P{mpz_class(5), mpz_class("99999999999999999999")}; delete t);
  OP(cfg, "serialize_manually", a->serialize_manually(ss));
  OP(cfg, "deserialize_manually", c->deserialize_manually(ss));
  OP(cfg, "operator_shl_text", ts << *a);
  // poly_p handles (copy-on-write): private handles, private payloads
  OP(cfg, "polyp_construct", PP* t = new PP(std::initializer_list<T>{(T)1, (T)2}); delete t);
  {
    PP* pa = new PP(vals, vals + D);
    PP* pb = new PP(std::initializer_list<T>{(T)5, (T)7, (T)11});
    PP* pc = new PP;
    OP(cfg, "polyp_copy_handle", PP* t = new PP(*pa); delete t);
    OP(cfg, "polyp_ntt", pa->ntt_pow_phi(); pb->ntt_pow_phi());
    OP(cfg, "polyp_add_mul", *pc = *pa * *pb + *pa);
    OP(cfg, "polyp_cow_write", PP t(*pa); t(0, 0) = 1; r ^= (t == *pa));
    OP(cfg, "polyp_eq", r ^= (*pa == *pb); r ^= (*pa != *pb));
    OP(cfg, "polyp_invntt", pc->invntt_pow_invphi());
    OP(cfg, "polyp_poly2mpz", pc->poly2mpz(arr));
    OP(cfg, "polyp_set_mpz", pc->set_mpz(carr));
    OP(cfg, "polyp_serialize", pc->serialize_manually(ss); pa->deserialize_manually(ss));
    delete pa; delete pb; delete pc;
  }
  for (auto& z : arr) mpz_clear(z);
  delete a; delete b; delete c; delete s;
  set_sink(r);  // keep `r` alive (outside any window)
}

// transform-only configuration (degree > PERMUT_LIMIT_UNROLL: the bit-reversal uses the static table permut<>::P)
template <class T, size_t D, size_t M>
static void run_big(const char* cfg) {
  using P = nfl::poly<T, D, M>;
  P* a = new P{(T)1, (T)2, (T)3, (T)4};
  P* b = new P{(T)9, (T)8};
  P* c = new P;
  OP(cfg, "ntt_pow_phi", a->ntt_pow_phi(); b->ntt_pow_phi());
  OP(cfg, "mul", *c = *a * *b);
  OP(cfg, "invntt_pow_invphi", c->invntt_pow_invphi());
  delete a; delete b; delete c;
}

// inverse transform FIRST (before any forward transform / product of that type), then optionally the rest
template <class T, size_t D, size_t M>
static void run_inv_first(const char* cfg, bool rest) {
  using P = nfl::poly<T, D, M>;
  P* a = nullptr;
  OP(cfg, "construct_list", a = new P{(T)1, (T)2, (T)3, (T)4});
  OP(cfg, "invntt_pow_invphi", a->invntt_pow_invphi());
  if (rest) {
    P* b = nullptr;
    P* c = nullptr;
    OP(cfg, "construct_default", c = new P);
    OP(cfg, "construct_value", b = new P((T)7));
    OP(cfg, "ntt_pow_phi", a->ntt_pow_phi(); b->ntt_pow_phi());
    OP(cfg, "mul", *c = *a * *b);
    OP(cfg, "add", *c = *c + *b);
    OP(cfg, "invntt_pow_invphi_2", c->invntt_pow_invphi());
    OP(cfg, "eq", set_sink(*a == *b));
    delete b; delete c;
  }
  delete a;
}

struct CfgEntry { const char* name; const char* group; void (*fn)(const char*); };
template <class T, size_t D, size_t M> static void full_cfg(const char* c) { run_cfg<T, D, M>(c); }
template <class T, size_t D, size_t M> static void big_cfg(const char* c) { run_big<T, D, M>(c); }
template <class T, size_t D, size_t M> static void invfirst_cfg(const char* c) { run_inv_first<T, D, M>(c, true); }
template <class T, size_t D, size_t M> static void invonly_cfg(const char* c) { run_inv_first<T, D, M>(c, false); }

// Which configurations are compiled in is chosen by the translator (-DFP_SMALL / -DFP_MID / -DFP_BIG / -DFP_HUGE): static
// initialisation of every instantiated type runs (and is traced) in every process of that executable.
static const CfgEntry kCfgs[] = {
#ifdef FP_SMALL
    // degree >= 16 so that every SIMD backend instantiates (16 uint16_t lanes with AVX2)
    {"u32_16_2", "small", full_cfg<uint32_t, 16, 2>},
    {"u64_16_2", "small", full_cfg<uint64_t, 16, 2>},
    {"u16_16_1", "small", full_cfg<uint16_t, 16, 1>},
    {"u64_32_3", "small", full_cfg<uint64_t, 32, 3>},
    {"u32_2048_1", "small", big_cfg<uint32_t, 2048, 1>},
#endif
#ifdef FP_MID
    {"u64_2048_2", "mid", invfirst_cfg<uint64_t, 2048, 2>},
#endif
#ifdef FP_WPONLY
    {"u32_32768_1", "wponly", invfirst_cfg<uint32_t, 32768, 1>},
    {"u64_2048_1", "wponly", full_cfg<uint64_t, 2048, 1>},
    {"u64_1024_1", "wponly", invfirst_cfg<uint64_t, 1024, 1>},
    {"u16_512_1", "wponly", invfirst_cfg<uint16_t, 512, 1>},
    {"u64_65536_2", "wponly", invfirst_cfg<uint64_t, 65536, 2>},
    {"u64_65536_1f", "wponly", full_cfg<uint64_t, 65536, 1>},
#endif
#ifdef FP_BIG
    {"u64_65536_1", "big", invonly_cfg<uint64_t, 65536, 1>},
#endif
#ifdef FP_HUGE
    {"u64_1048576_1", "huge", invfirst_cfg<uint64_t, 1048576, 1>},
#endif
};

int main(int argc, char** argv) {
  std::string a1 = argc > 1 ? argv[1] : "small", a2 = argc > 2 ? argv[2] : "";
  if (a1 == "list") {
    for (auto& c : kCfgs) printf("cfg %s %s\n", c.name, c.group);
    return 0;
  }
  vh_wp.names = new std::vector<std::string>;
  vh_wp.names->reserve(1024);
  bool wp = a1 == "wp";
  if (wp) wp_start(); else vh_phase = 1;  // main reached: static initialisation is over
  unsigned ran = 0;
  for (auto& c : kCfgs)
    if (wp ? a2 == c.name : a1 == c.group) { c.fn(c.name); ran++; }
  if (wp) OP(a2.c_str(), "canary", vh_canary = vh_canary + 1);
  if (wp) { vh_wp.on = 0; wp_unprotect_all(); } else vh_phase = 2;  // end of the op phase
  if (!ran) { fprintf(stderr, "nothing to run for %s %s\n", a1.c_str(), a2.c_str()); return 2; }
  for (size_t k = 0; k < vh_wp.names->size(); k++) printf("op %zu %s\n", k, (*vh_wp.names)[k].c_str());
  for (unsigned i = 0; i < vh_wp.nhits; i++)
    printf("wp %u %lu %u\n", vh_wp.hits[i].op, (unsigned long)vh_wp.hits[i].addr, vh_wp.hits[i].in_window);
  if (wp) printf("wpend %u %u\n", vh_wp.nhits, vh_wp.dropped);
  return 0;
}
