// C17 footprint harness.  Built NON-PIE (-no-pie) so that the executable's .data/.bss have the link-time
// addresses `readelf -S` / `nm` print, and run under `valgrind --tool=lackey --trace-mem=yes` by
// tools/gen_footprint.py.  Lackey prints addresses, not values, so the markers are *variables*: a store to
// `vh_begin` opens the window of the next operation, a store to `vh_end` closes it, the two stores to `vh_phase`
// delimit the op phase (the first one is the first statement of main: static initialisation is over).
// In a window exactly one arithmetic API operation is performed on objects that are private to this function
// (stack / heap).  The translator records, per operation, every store that lands in the executable's writable
// static storage and the statics that are read.
//
// The operation list is printed on stdout (`op <k> <config> <name>`), so the translator needs no second copy.
#include <cstdint>
#include <cstdio>
#include <sstream>
#include <array>
#include <nfl.hpp>

extern "C" {
volatile uint64_t vh_phase __attribute__((used)) = 0;
volatile uint64_t vh_begin __attribute__((used)) = 0;
volatile uint64_t vh_end __attribute__((used)) = 0;
volatile uint64_t vh_sink __attribute__((used)) = 0;
}

static unsigned g_k = 0;
static std::vector<std::string>* g_names;  // heap object: stores to it are not static stores; the pointer is only written outside op windows

#define OP(cfg, name, ...)                                    \
  do {                                                        \
    unsigned k_ = g_k++;                                      \
    g_names->push_back(std::string(cfg) + " " + (name));      \
    vh_begin = k_;                                             \
    asm volatile("" ::: "memory");                            \
    { __VA_ARGS__; }                                          \
    asm volatile("" ::: "memory");                            \
    vh_end = k_;                                               \
  } while (0)

template <class T, size_t D, size_t M>
static void run_cfg(const char* cfg) {
  using P = nfl::poly<T, D, M>;
  using PP = nfl::poly_p<T, D, M>;
  // inputs prepared outside the windows
  T vals[D];
  for (size_t i = 0; i < D; i++) vals[i] = (T)(3 * i + 1);
  P* a = new P(vals, vals + D);
  P* b = new P{(T)5, (T)7, (T)11};
  P* c = new P;
  P* s = new P;
  bool r = false;
  std::array<mpz_t, D> arr;
  for (size_t i = 0; i < D; i++) mpz_init_set_ui(arr[i], 1000003u * (i + 1));
  mpz_class big("123456789123456789");
  std::array<mpz_class, D> carr;  // (set_mpz(std::array<mpz_t,D>) does not instantiate in the library: not exercised)
  for (size_t i = 0; i < D; i++) carr[i] = big * (unsigned long)(i + 1);
  std::stringstream ss, ts;

  OP(cfg, "construct_default", P* t = new P; delete t);
  OP(cfg, "construct_value", P* t = new P((T)42); delete t);
  OP(cfg, "construct_list", P* t = new P{(T)1, (T)2, (T)3}; delete t);
  OP(cfg, "construct_range", P* t = new P(vals, vals + D); delete t);
  OP(cfg, "copy_assign", *c = *a);
  OP(cfg, "ntt_pow_phi", a->ntt_pow_phi());
  OP(cfg, "ntt_pow_phi_b", b->ntt_pow_phi());
  OP(cfg, "add", *c = *a + *b);
  OP(cfg, "sub", *c = *a - *b);
  OP(cfg, "mul", *c = *a * *b);
  OP(cfg, "compute_shoup", *s = nfl::compute_shoup(*b));
  OP(cfg, "shoup_product", *c = nfl::shoup(*a * *b, *s));
  OP(cfg, "add_fn", nfl::add(*c, *a, *b));
  OP(cfg, "sub_fn", nfl::sub(*c, *a, *b));
  OP(cfg, "mul_fn", nfl::mul(*c, *a, *b));
  OP(cfg, "expr_nested", *c = *a * *b + *a - *b);
  OP(cfg, "eq", r ^= (*a == *b));
  OP(cfg, "neq", r ^= (*a != *b));
  OP(cfg, "eq_self", r ^= (*a == *a));
  OP(cfg, "operator_bool", r ^= (bool)*c);
  OP(cfg, "invntt_pow_invphi", c->invntt_pow_invphi());
  OP(cfg, "invntt_pow_invphi_a", a->invntt_pow_invphi());
  OP(cfg, "poly2mpz_into", a->poly2mpz(arr));
  OP(cfg, "poly2mpz_new", auto t = c->poly2mpz(); for (auto& z : t) mpz_clear(z));
  OP(cfg, "mpz2poly", c->mpz2poly(arr));
  OP(cfg, "set_mpz_array_class", c->set_mpz(carr));
  OP(cfg, "set_mpz_class", c->set_mpz(big));
  OP(cfg, "construct_mpz_class", P* t = new P(big); delete t);
  OP(cfg, "construct_mpz_list", P* t = new P{mpz_class(5), mpz_class("99999999999999999999")}; delete t);
  OP(cfg, "serialize_manually", a->serialize_manually(ss));
  OP(cfg, "deserialize_manually", c->deserialize_manually(ss));
  OP(cfg, "operator_shl_text", ts << *a);
  // poly_p handles (copy-on-write): private handles, private payloads
  OP(cfg, "polyp_construct", PP* t = new PP(std::initializer_list<T>{(T)1, (T)2}); delete t);
  {
    PP* pa = new PP(vals, vals + D);
    PP* pb = new PP(std::initializer_list<T>{(T)5, (T)7, (T)11});
    PP* pc = new PP;
    OP(cfg, "polyp_copy_handle", PP* t = new PP(*pa); delete t);
    OP(cfg, "polyp_ntt", pa->ntt_pow_phi(); pb->ntt_pow_phi());
    OP(cfg, "polyp_add_mul", *pc = *pa * *pb + *pa);
    OP(cfg, "polyp_cow_write", PP t(*pa); t(0, 0) = 1; r ^= (t == *pa));
    OP(cfg, "polyp_eq", r ^= (*pa == *pb); r ^= (*pa != *pb));
    OP(cfg, "polyp_invntt", pc->invntt_pow_invphi());
    OP(cfg, "polyp_poly2mpz", pc->poly2mpz(arr));
    OP(cfg, "polyp_set_mpz", pc->set_mpz(carr));
    OP(cfg, "polyp_serialize", pc->serialize_manually(ss); pa->deserialize_manually(ss));
    delete pa; delete pb; delete pc;
  }
  for (auto& z : arr) mpz_clear(z);
  delete a; delete b; delete c; delete s;
  vh_sink = r;  // keep `r` alive (outside any window)
}

// transform-only configuration (degree > PERMUT_LIMIT_UNROLL: the bit-reversal uses the static table permut<>::P)
template <class T, size_t D, size_t M>
static void run_big(const char* cfg) {
  using P = nfl::poly<T, D, M>;
  P* a = new P{(T)1, (T)2, (T)3, (T)4};
  P* b = new P{(T)9, (T)8};
  P* c = new P;
  OP(cfg, "ntt_pow_phi", a->ntt_pow_phi(); b->ntt_pow_phi());
  OP(cfg, "mul", *c = *a * *b);
  OP(cfg, "invntt_pow_invphi", c->invntt_pow_invphi());
  delete a; delete b; delete c;
}

int main() {
  g_names = new std::vector<std::string>;
  g_names->reserve(1024);
  vh_phase = 1;  // main reached: static initialisation is over
  // degree >= 16 so that every SIMD backend instantiates (16 uint16_t lanes with AVX2)
  run_cfg<uint32_t, 16, 2>("u32_16_2");
  run_cfg<uint64_t, 16, 2>("u64_16_2");
  run_cfg<uint16_t, 16, 1>("u16_16_1");
  run_cfg<uint64_t, 32, 3>("u64_32_3");
  run_big<uint32_t, 2048, 1>("u32_2048_1");
  vh_phase = 2;  // end of the op phase
  for (size_t k = 0; k < g_names->size(); k++) printf("op %zu %s\n", k, (*g_names)[k].c_str());
  return 0;
}
